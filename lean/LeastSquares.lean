import Mathlib.Algebra.BigOperators.Field
import Mathlib.Algebra.BigOperators.Ring.Finset
import Mathlib.Algebra.Order.BigOperators.Ring.Finset
import Mathlib.Data.Real.Basic
import Mathlib.Data.Fintype.BigOperators
import Mathlib.Data.Matrix.Mul
import Mathlib.Tactic

open Finset BigOperators Matrix

namespace Spowtd
set_option linter.unusedSectionVars false

variable {H S : Type} [Fintype H] [Fintype S] [DecidableEq S] [DecidableEq H]
variable (lv : H → Finset S) (t : H → S → ℝ)

/-- master-curve value at level `h`: mean of the shifted crossings -/
noncomputable def meanAt (x : S → ℝ) (h : H) : ℝ :=
  (∑ s ∈ lv h, (x s + t h s)) / ((lv h).card : ℝ)

noncomputable def resid (x : S → ℝ) (h : H) (s : S) : ℝ :=
  x s + t h s - meanAt lv t x h

/-- the objective of property C05 -/
noncomputable def obj (x : S → ℝ) : ℝ :=
  ∑ h, ∑ s ∈ lv h, (resid lv t x h s) ^ 2

theorem resid_sum_level (x : S → ℝ) (h : H) (hne : (lv h).Nonempty) :
    ∑ s ∈ lv h, resid lv t x h s = 0 := by
  have hc : ((lv h).card : ℝ) ≠ 0 := by
    exact_mod_cast (Finset.card_pos.mpr hne).ne'
  simp only [resid, meanAt, Finset.sum_sub_distrib, Finset.sum_const, nsmul_eq_mul]
  field_simp
  ring


/-- shifting the offsets by `d` changes each residual by `d s` minus the level mean of `d` -/
theorem resid_add (x d : S → ℝ) (h : H) (s : S) :
    resid lv t (fun s => x s + d s) h s
      = resid lv t x h s + (d s - (∑ u ∈ lv h, d u) / ((lv h).card : ℝ)) := by
  simp only [resid, meanAt]
  have : ∑ u ∈ lv h, (x u + d u + t h u) = ∑ u ∈ lv h, (x u + t h u) + ∑ u ∈ lv h, d u := by
    rw [← Finset.sum_add_distrib]; apply Finset.sum_congr rfl; intro u _; ring
  rw [this, add_div]; ring

/-- C05, first two sentences: if for every interval the residuals against the master curve
    sum to zero, the offsets minimise the objective over all offset vectors. -/
theorem min_of_resid_sums_zero (x : S → ℝ) (hne : ∀ h, (lv h).Nonempty)
    (hstat : ∀ s, ∑ h, (if s ∈ lv h then resid lv t x h s else 0) = 0) (y : S → ℝ) :
    obj lv t x ≤ obj lv t y := by
  set d : S → ℝ := fun s => y s - x s with hd
  have hy : y = fun s => x s + d s := by funext s; simp [hd]
  set m : H → ℝ := fun h => (∑ u ∈ lv h, d u) / ((lv h).card : ℝ) with hm
  -- cross term vanishes
  have cross : ∑ h, ∑ s ∈ lv h, resid lv t x h s * (d s - m h) = 0 := by
    have e1 : ∀ h, ∑ s ∈ lv h, resid lv t x h s * (d s - m h)
        = ∑ s ∈ lv h, resid lv t x h s * d s := by
      intro h
      have : ∑ s ∈ lv h, resid lv t x h s * (d s - m h)
          = ∑ s ∈ lv h, resid lv t x h s * d s - (∑ s ∈ lv h, resid lv t x h s) * m h := by
        rw [Finset.sum_mul, ← Finset.sum_sub_distrib]; apply Finset.sum_congr rfl; intro s _; ring
      rw [this, resid_sum_level lv t x h (hne h)]; ring
    simp only [e1]
    have e2 : ∀ h, ∑ s ∈ lv h, resid lv t x h s * d s
        = ∑ s, (if s ∈ lv h then resid lv t x h s else 0) * d s := by
      intro h
      rw [← Finset.sum_filter_add_sum_filter_not Finset.univ (fun s => s ∈ lv h)]
      have z : ∑ s ∈ Finset.univ.filter (fun s => ¬ s ∈ lv h),
          (if s ∈ lv h then resid lv t x h s else 0) * d s = 0 := by
        apply Finset.sum_eq_zero; intro s hs; simp at hs; simp [hs]
      rw [z, add_zero]
      have : Finset.univ.filter (fun s => s ∈ lv h) = lv h := by ext s; simp
      rw [this]; apply Finset.sum_congr rfl; intro s hs; simp [hs]
    simp only [e2]
    rw [Finset.sum_comm]
    apply Finset.sum_eq_zero; intro s _
    rw [← Finset.sum_mul, hstat s, zero_mul]
  have expand : obj lv t y = obj lv t x
      + 2 * (∑ h, ∑ s ∈ lv h, resid lv t x h s * (d s - m h))
      + ∑ h, ∑ s ∈ lv h, (d s - m h) ^ 2 := by
    rw [hy]; simp only [obj, resid_add lv t x d]
    rw [Finset.mul_sum, ← Finset.sum_add_distrib, ← Finset.sum_add_distrib]
    apply Finset.sum_congr rfl; intro h _
    rw [Finset.mul_sum, ← Finset.sum_add_distrib, ← Finset.sum_add_distrib]
    apply Finset.sum_congr rfl; intro s _; ring
  have nn : 0 ≤ ∑ h, ∑ s ∈ lv h, (d s - m h) ^ 2 :=
    Finset.sum_nonneg (fun h _ => Finset.sum_nonneg (fun s _ => sq_nonneg _))
  rw [expand, cross]; linarith


/-- expansion of the objective around a point whose per-interval residual sums vanish -/
theorem obj_expand (x : S → ℝ) (hne : ∀ h, (lv h).Nonempty)
    (hstat : ∀ s, ∑ h, (if s ∈ lv h then resid lv t x h s else 0) = 0) (y : S → ℝ) :
    obj lv t y = obj lv t x
      + ∑ h, ∑ s ∈ lv h, ((y s - x s) - (∑ u ∈ lv h, (y u - x u)) / ((lv h).card : ℝ)) ^ 2 := by
  set d : S → ℝ := fun s => y s - x s with hd
  have hy : y = fun s => x s + d s := by funext s; simp [hd]
  set m : H → ℝ := fun h => (∑ u ∈ lv h, d u) / ((lv h).card : ℝ) with hm
  have cross : ∑ h, ∑ s ∈ lv h, resid lv t x h s * (d s - m h) = 0 := by
    have e1 : ∀ h, ∑ s ∈ lv h, resid lv t x h s * (d s - m h)
        = ∑ s ∈ lv h, resid lv t x h s * d s := by
      intro h
      have : ∑ s ∈ lv h, resid lv t x h s * (d s - m h)
          = ∑ s ∈ lv h, resid lv t x h s * d s - (∑ s ∈ lv h, resid lv t x h s) * m h := by
        rw [Finset.sum_mul, ← Finset.sum_sub_distrib]; apply Finset.sum_congr rfl; intro s _; ring
      rw [this, resid_sum_level lv t x h (hne h)]; ring
    simp only [e1]
    have e2 : ∀ h, ∑ s ∈ lv h, resid lv t x h s * d s
        = ∑ s, (if s ∈ lv h then resid lv t x h s else 0) * d s := by
      intro h
      rw [← Finset.sum_filter_add_sum_filter_not Finset.univ (fun s => s ∈ lv h)]
      have z : ∑ s ∈ Finset.univ.filter (fun s => ¬ s ∈ lv h),
          (if s ∈ lv h then resid lv t x h s else 0) * d s = 0 := by
        apply Finset.sum_eq_zero; intro s hs; simp at hs; simp [hs]
      rw [z, add_zero]
      have : Finset.univ.filter (fun s => s ∈ lv h) = lv h := by ext s; simp
      rw [this]; apply Finset.sum_congr rfl; intro s hs; simp [hs]
    simp only [e2]
    rw [Finset.sum_comm]
    apply Finset.sum_eq_zero; intro s _
    rw [← Finset.sum_mul, hstat s, zero_mul]
  have expand : obj lv t y = obj lv t x
      + 2 * (∑ h, ∑ s ∈ lv h, resid lv t x h s * (d s - m h))
      + ∑ h, ∑ s ∈ lv h, (d s - m h) ^ 2 := by
    rw [hy]; simp only [obj, resid_add lv t x d]
    rw [Finset.mul_sum, ← Finset.sum_add_distrib, ← Finset.sum_add_distrib]
    apply Finset.sum_congr rfl; intro h _
    rw [Finset.mul_sum, ← Finset.sum_add_distrib, ← Finset.sum_add_distrib]
    apply Finset.sum_congr rfl; intro s _; ring
  rw [expand, cross]; ring

/-- any other minimiser differs from `x` by a constant on every level -/
theorem level_const_of_min (x : S → ℝ) (hne : ∀ h, (lv h).Nonempty)
    (hstat : ∀ s, ∑ h, (if s ∈ lv h then resid lv t x h s else 0) = 0)
    (y : S → ℝ) (hmin : obj lv t y ≤ obj lv t x) :
    ∀ h, ∀ s ∈ lv h, ∀ s' ∈ lv h, y s - x s = y s' - x s' := by
  have hexp := obj_expand lv t x hne hstat y
  have hQ : ∑ h, ∑ s ∈ lv h,
      ((y s - x s) - (∑ u ∈ lv h, (y u - x u)) / ((lv h).card : ℝ)) ^ 2 = 0 := by
    have nn : 0 ≤ ∑ h, ∑ s ∈ lv h,
        ((y s - x s) - (∑ u ∈ lv h, (y u - x u)) / ((lv h).card : ℝ)) ^ 2 :=
      Finset.sum_nonneg (fun h _ => Finset.sum_nonneg (fun s _ => sq_nonneg _))
    linarith
  have hz : ∀ h, ∀ s ∈ lv h,
      (y s - x s) - (∑ u ∈ lv h, (y u - x u)) / ((lv h).card : ℝ) = 0 := by
    intro h s hs
    have h1 := (Finset.sum_eq_zero_iff_of_nonneg
      (fun h _ => Finset.sum_nonneg (fun s _ => sq_nonneg _))).mp hQ h (Finset.mem_univ h)
    have h2 := (Finset.sum_eq_zero_iff_of_nonneg (fun s _ => sq_nonneg _)).mp h1 s hs
    exact pow_eq_zero_iff (two_ne_zero) |>.mp h2
  intro h s hs s' hs'
  have a := hz h s hs
  have b := hz h s' hs'
  linarith

/-- C05, last sentence: with a connected overlap graph the minimiser is unique up to a common shift -/
theorem unique_up_to_shift (x : S → ℝ) (hne : ∀ h, (lv h).Nonempty)
    (hstat : ∀ s, ∑ h, (if s ∈ lv h then resid lv t x h s else 0) = 0)
    (y : S → ℝ) (hmin : obj lv t y ≤ obj lv t x)
    (hconn : ∀ s s', Relation.ReflTransGen (fun a b => ∃ h, a ∈ lv h ∧ b ∈ lv h) s s') :
    ∀ s s', y s - x s = y s' - x s' := by
  have hl := level_const_of_min lv t x hne hstat y hmin
  intro s s'
  induction hconn s s' with
  | refl => rfl
  | tail _ hstep ih =>
    obtain ⟨h, ha, hb⟩ := hstep
    exact ih.trans (hl h _ ha _ hb)

/-- the matrix `find_offsets` assembles: one row per (level, series at that level),
    one column per series, the reference column being identically zero -/
noncomputable def designA (ref : S) : Matrix (H × S) S ℝ := fun r s =>
  if r.2 ∈ lv r.1 then
    (if s ∈ lv r.1 ∧ s ≠ ref then 1 / ((lv r.1).card : ℝ) else 0)
      - (if s = r.2 ∧ s ≠ ref then 1 else 0)
  else 0

noncomputable def designB : H × S → ℝ := fun r =>
  if r.2 ∈ lv r.1 then t r.1 r.2 - (∑ u ∈ lv r.1, t r.1 u) / ((lv r.1).card : ℝ) else 0

theorem sum_ite_mem (h : H) (f : S → ℝ) :
    ∑ s, (if s ∈ lv h then f s else 0) = ∑ s ∈ lv h, f s := by
  rw [← Finset.sum_filter]; congr 1; ext s; simp

/-- row of `A x - b` is minus the residual -/
theorem row_resid (ref : S) (x : S → ℝ) (hx : x ref = 0) (h : H) (s' : S) (hs' : s' ∈ lv h)
    (hne : (lv h).Nonempty) :
    (designA lv ref *ᵥ x - designB lv t) (h, s') = - resid lv t x h s' := by
  have hc : ((lv h).card : ℝ) ≠ 0 := by exact_mod_cast (Finset.card_pos.mpr hne).ne'
  simp only [Pi.sub_apply, Matrix.mulVec, dotProduct, designA, designB, hs', if_true]
  have e1 : ∑ s, ((if s ∈ lv h ∧ s ≠ ref then 1 / ((lv h).card : ℝ) else 0)
        - (if s = s' ∧ s ≠ ref then 1 else 0)) * x s
      = (∑ s ∈ lv h, x s) / ((lv h).card : ℝ) - x s' := by
    have a : ∀ s, ((if s ∈ lv h ∧ s ≠ ref then 1 / ((lv h).card : ℝ) else 0)
        - (if s = s' ∧ s ≠ ref then 1 else 0)) * x s
        = (if s ∈ lv h then x s / ((lv h).card : ℝ) else 0) - (if s = s' then x s else 0) := by
      intro s
      by_cases hr : s = ref
      · subst hr; simp [hx]
      · by_cases hm : s ∈ lv h
        · by_cases he : s = s'
          · subst he
            simp only [hm, hr, ne_eq, not_false_eq_true, and_self, if_true, true_and]
            ring
          · simp only [hm, hr, he, ne_eq, not_false_eq_true, and_self, if_true, false_and, if_false]
            ring
        · by_cases he : s = s'
          · subst he; exact absurd hs' hm
          · simp only [hm, he, false_and, if_false]
            ring
    simp only [a, Finset.sum_sub_distrib]
    rw [sum_ite_mem lv h (fun s => x s / ((lv h).card : ℝ)), ← Finset.sum_div]
    simp
  rw [e1]
  simp only [resid, meanAt, Finset.sum_add_distrib, add_div]
  ring


/-- column `s ≠ ref` of the normal equations is the sum of the residuals of interval `s` -/
theorem col_normal_eq (ref : S) (x : S → ℝ) (hx : x ref = 0) (hne : ∀ h, (lv h).Nonempty)
    (s : S) (hs : s ≠ ref) :
    ((designA lv ref)ᵀ *ᵥ (designA lv ref *ᵥ x - designB lv t)) s
      = ∑ h, (if s ∈ lv h then resid lv t x h s else 0) := by
  simp only [Matrix.mulVec, dotProduct, Matrix.transpose_apply]
  rw [Fintype.sum_prod_type]
  apply Finset.sum_congr rfl; intro h _
  -- inner sum over s'
  have inner : ∀ s', designA lv ref (h, s') s * (designA lv ref *ᵥ x - designB lv t) (h, s')
      = if s' ∈ lv h then
          (-(if s ∈ lv h then 1 / ((lv h).card : ℝ) else 0)) * resid lv t x h s'
            + (if s = s' then resid lv t x h s' else 0)
        else 0 := by
    intro s'
    by_cases hm : s' ∈ lv h
    · rw [row_resid lv t ref x hx h s' hm (hne h)]
      simp only [designA, hm, if_true, hs, ne_eq, not_false_eq_true, and_true]
      by_cases e : s = s'
      · subst e; simp only [hm, if_true]; ring
      · simp only [e, if_false]; ring
    · have : designA lv ref (h, s') s = 0 := by simp [designA, hm]
      rw [this, zero_mul]; simp [hm]
  have : ∀ s', designA lv ref (h, s') s *
      ((fun r => ∑ c, designA lv ref r c * x c) - designB lv t) (h, s')
      = designA lv ref (h, s') s * (designA lv ref *ᵥ x - designB lv t) (h, s') := by
    intro s'; rfl
  simp only [this, inner]
  rw [sum_ite_mem lv h (fun s' => (-(if s ∈ lv h then 1 / ((lv h).card : ℝ) else 0)) * resid lv t x h s'
            + (if s = s' then resid lv t x h s' else 0))]
  rw [Finset.sum_add_distrib, ← Finset.mul_sum, resid_sum_level lv t x h (hne h), mul_zero, zero_add]
  by_cases hm : s ∈ lv h
  · simp only [hm, if_true]
    rw [Finset.sum_ite_eq (lv h) s (fun s' => resid lv t x h s')]; simp [hm]
  · simp only [hm, if_false]
    apply Finset.sum_eq_zero; intro s' hs'
    have : s ≠ s' := fun e => hm (e ▸ hs')
    simp [this]

/-- from what pyvc proves about the code (A, b as assembled; x solves the normal equations;
    x ref = 0) to the hypothesis of `min_of_resid_sums_zero` -/
theorem resid_sums_zero_of_normal_eq (ref : S) (x : S → ℝ) (hx : x ref = 0)
    (hne : ∀ h, (lv h).Nonempty)
    (hN : (designA lv ref)ᵀ *ᵥ (designA lv ref *ᵥ x - designB lv t) = 0) :
    ∀ s, ∑ h, (if s ∈ lv h then resid lv t x h s else 0) = 0 := by
  have hothers : ∀ s, s ≠ ref → ∑ h, (if s ∈ lv h then resid lv t x h s else 0) = 0 := by
    intro s hs
    rw [← col_normal_eq lv t ref x hx hne s hs, hN]; rfl
  have htotal : ∑ s, ∑ h, (if s ∈ lv h then resid lv t x h s else 0) = 0 := by
    rw [Finset.sum_comm]
    apply Finset.sum_eq_zero; intro h _
    rw [sum_ite_mem lv h (fun s => resid lv t x h s)]
    exact resid_sum_level lv t x h (hne h)
  intro s
  by_cases hs : s = ref
  · subst hs
    rw [← Finset.add_sum_erase Finset.univ _ (Finset.mem_univ s)] at htotal
    have : ∑ u ∈ Finset.univ.erase s, ∑ h, (if u ∈ lv h then resid lv t x h u else 0) = 0 := by
      apply Finset.sum_eq_zero; intro u hu
      exact hothers u (Finset.ne_of_mem_erase hu)
    rw [this, add_zero] at htotal
    exact htotal
  · exact hothers s hs


/-- C05 for the real code: what pyvc proves about `find_offsets` (the assembled `A`, `b`
    are `designA`, `designB`; `linalg.solve` returned `x` with `(AᵀA) x = Aᵀ b`; the reference
    offset is 0) implies the three sentences of the property. -/
theorem c05 (ref : S) (x : S → ℝ) (hx : x ref = 0) (hne : ∀ h, (lv h).Nonempty)
    (hsolve : ((designA lv ref)ᵀ * designA lv ref) *ᵥ x = (designA lv ref)ᵀ *ᵥ designB lv t) :
    (∀ s, ∑ h, (if s ∈ lv h then resid lv t x h s else 0) = 0)
    ∧ (∀ y, obj lv t x ≤ obj lv t y)
    ∧ (∀ y, obj lv t y ≤ obj lv t x →
        (∀ s s', Relation.ReflTransGen (fun a b => ∃ h, a ∈ lv h ∧ b ∈ lv h) s s') →
        ∀ s s', y s - x s = y s' - x s') := by
  have hN : (designA lv ref)ᵀ *ᵥ (designA lv ref *ᵥ x - designB lv t) = 0 := by
    rw [Matrix.mulVec_sub, Matrix.mulVec_mulVec, hsolve, sub_self]
  have hstat := resid_sums_zero_of_normal_eq lv t ref x hx hne hN
  exact ⟨hstat, min_of_resid_sums_zero lv t x hne hstat,
    fun y hmin hconn => unique_up_to_shift lv t x hne hstat y hmin hconn⟩

/-- Rows that are identically zero contribute nothing to the normal equations: restricting a system `(A, b)` to a set
    of rows that contains every non-zero row changes neither `AᵀA` nor `Aᵀb`.  (pyvc proves the rows `find_offsets`
    assembles one per *present* (level, series) pair; `designA` / `designB` are indexed by all pairs and are zero on
    the absent ones.) -/
theorem normal_eq_of_present_rows {R R' C : Type} [Fintype R] [Fintype R'] [Fintype C] [DecidableEq R]
    (A : Matrix R C ℝ) (b : R → ℝ) (e : R' → R) (he : Function.Injective e)
    (hz : ∀ r, r ∉ Set.range e → (∀ c, A r c = 0) ∧ b r = 0) :
    (A.submatrix e id)ᵀ * (A.submatrix e id) = Aᵀ * A
      ∧ (A.submatrix e id)ᵀ *ᵥ (b ∘ e) = Aᵀ *ᵥ b := by
  have key : ∀ f : R → ℝ, (∀ r, r ∉ Set.range e → f r = 0) → ∑ r' : R', f (e r') = ∑ r : R, f r := by
    intro f hf
    have hm := Finset.sum_map Finset.univ ⟨e, he⟩ f
    simp only [Function.Embedding.coeFn_mk] at hm
    rw [← hm]
    apply Finset.sum_subset (Finset.subset_univ _)
    intro r _ hr
    apply hf
    rintro ⟨r', hr'⟩
    apply hr
    simp only [Finset.mem_map, Finset.mem_univ, Function.Embedding.coeFn_mk, true_and]
    exact ⟨r', hr'⟩
  constructor
  · ext i j
    simp only [Matrix.mul_apply, Matrix.transpose_apply, Matrix.submatrix_apply, id_eq]
    apply key (fun r => A r i * A r j)
    intro r hr
    simp [(hz r hr).1 i]
  · ext i
    simp only [Matrix.mulVec, dotProduct, Matrix.transpose_apply, Matrix.submatrix_apply, id_eq, Function.comp_apply]
    apply key (fun r => A r i * b r)
    intro r hr
    simp [(hz r hr).2]


/-- The system over the *present* (level, series) pairs -- the rows `find_offsets` actually writes, one per crossing,
    as proved by pyvc (`row_A`, `row_b`, `row_place`) -- has the same normal equations as `designA`, `designB`, which
    are indexed by all pairs and vanish on the absent ones. -/
theorem present_rows_normal_eq (ref : S) :
    ((designA lv ref).submatrix (Subtype.val : {r : H × S // r.2 ∈ lv r.1} → H × S) id)ᵀ
        * ((designA lv ref).submatrix (Subtype.val : {r : H × S // r.2 ∈ lv r.1} → H × S) id)
        = (designA lv ref)ᵀ * designA lv ref
    ∧ ((designA lv ref).submatrix (Subtype.val : {r : H × S // r.2 ∈ lv r.1} → H × S) id)ᵀ
          *ᵥ (designB lv t ∘ (Subtype.val : {r : H × S // r.2 ∈ lv r.1} → H × S))
        = (designA lv ref)ᵀ *ᵥ designB lv t := by
  apply normal_eq_of_present_rows _ _ _ Subtype.val_injective
  intro r hr
  have hm : r.2 ∉ lv r.1 := by
    intro h
    exact hr ⟨⟨r, h⟩, rfl⟩
  constructor
  · intro c
    simp [designA, hm]
  · simp [designB, hm]

/-- C05 for the code as pyvc describes it: the offsets solve the normal equations of the rows actually written. -/
theorem c05_present_rows (ref : S) (x : S → ℝ) (hx : x ref = 0) (hne : ∀ h, (lv h).Nonempty)
    (hsolve : (((designA lv ref).submatrix (Subtype.val : {r : H × S // r.2 ∈ lv r.1} → H × S) id)ᵀ
        * ((designA lv ref).submatrix (Subtype.val : {r : H × S // r.2 ∈ lv r.1} → H × S) id)) *ᵥ x
      = ((designA lv ref).submatrix (Subtype.val : {r : H × S // r.2 ∈ lv r.1} → H × S) id)ᵀ
          *ᵥ (designB lv t ∘ (Subtype.val : {r : H × S // r.2 ∈ lv r.1} → H × S))) :
    (∀ s, ∑ h, (if s ∈ lv h then resid lv t x h s else 0) = 0) ∧ (∀ y, obj lv t x ≤ obj lv t y) := by
  obtain ⟨h1, h2⟩ := present_rows_normal_eq lv t ref
  rw [h1, h2] at hsolve
  obtain ⟨a, b, _⟩ := c05 lv t ref x hx hne hsolve
  exact ⟨a, b⟩

/-- C06 (lemma over the C05 contract): if some offsets align all pieces perfectly, every
    minimiser aligns them perfectly: at each level all shifted crossings equal the master curve. -/
theorem c06_perfect_alignment (x : S → ℝ) (hmin : ∀ y, obj lv t x ≤ obj lv t y)
    (xstar : S → ℝ) (hstar : obj lv t xstar = 0) :
    ∀ h, ∀ s ∈ lv h, x s + t h s = meanAt lv t x h := by
  have h0 : obj lv t x = 0 := by
    have nn : 0 ≤ obj lv t x :=
      Finset.sum_nonneg (fun h _ => Finset.sum_nonneg (fun s _ => sq_nonneg _))
    have := hmin xstar
    linarith
  intro h s hs
  have h1 := (Finset.sum_eq_zero_iff_of_nonneg
    (fun h _ => Finset.sum_nonneg (fun s _ => sq_nonneg _))).mp h0 h (Finset.mem_univ h)
  have h2 := (Finset.sum_eq_zero_iff_of_nonneg (fun s _ => sq_nonneg _)).mp h1 s hs
  have h3 : resid lv t x h s = 0 := pow_eq_zero_iff (two_ne_zero) |>.mp h2
  simp only [resid] at h3
  linarith

end Spowtd
#print axioms Spowtd.c05
#print axioms Spowtd.c06_perfect_alignment
#print axioms Spowtd.c05_present_rows
