"""Which functions, lemmas, bounded validations and Lean files decide which property."""

CLASSIFY_PURE = [
    "spowtd.classify:assert_equal",
    "spowtd.classify:get_mystery_jump_mask",
    "spowtd.classify:get_true_interval_masks",
    "spowtd.classify:find_stable_matching",
    "spowtd.classify:find_stable_matching#terminates",
    "spowtd.classify:check_for_uniform_time_steps",
    "spowtd.classify:get_candidate_match_intervals",
    "spowtd.classify:match_storms",
    "spowtd.classify:classify_interstorms",
    "spowtd.classify:match_all_storms",
    "spowtd.classify:populate_zeta_interval",
    "spowtd.classify:classify_intervals",
    "spowtd.classify:disambiguate_matching",
    "lemma:run_counter_basic",
    "lemma:run_counter_separation",
    "lemma:prefix_sums_monotone",
    "lemma:point_decrement_sum",
]

_PURE_NOTE = ("Assumed: numpy primitives as specified in pyvc/libspec.py; floats as reals; int64 does not overflow; "
              "(not assumed but proved: the deferred-acceptance while loop terminates -- variant find_stable_matching#terminates, the number "
              "of candidates left over all storms decreases with every iteration and is never negative; lemmas point_decrement_sum, "
              "prefix_sums_monotone; for loops range over finite sequences). Every SQL statement enters through an assumed "
              "contract (contracts/sql.py, keyed by the statement text read from /repo) and the Loaded(db) facts stated there; "
              "the contract of disambiguate_matching (including the C02 clause) is also evaluated natively on all small "
              "many-to-many relations (validation of the contract text, not counted in `discharged`).")


def _tables(pid):
    return {"run": "bounded.classify_tables:run_%s" % pid,
            "what": "bounded stand-in: table-level statement of %s checked natively through load_data + classify_intervals" % pid}


PROPS = {
    "C01": {
        "targets": CLASSIFY_PURE,
        "witness_from": {"spowtd.classify:get_candidate_match_intervals": "spowtd.classify:match_storms"},
        "bounded": [_tables("C01")],
        "level_text": "Unbounded proof, function by function, that the array-level classification functions (run detector, "
                      "candidate intervals, match_storms, deferred-acceptance loop, uniform-step check) meet contracts written "
                      "from the property: no exception on any admitted input, termination of the deferred-acceptance loop (decreasing "
                      "measure), one-to-one pairing, every pair shares a time "
                      "step. disambiguate_matching is proved from find_stable_matching's contract (adjacency tables, candidate "
                      "lists = reordered adjacency lists without repetition, every listed rise ranks its storms, read-back through "
                      "the start -> stop tables: the output pairs are input pairs, no storm and no rise twice), and match_storms "
                      "proves what it requires (no candidate pair listed twice: ghost maps pair -> rise run, storm run). "
                      "Obligations are generated from the AST of the current /repo source on every run. The table level (SQL) is "
                      "a bounded stand-in.",
        "level_note": _PURE_NOTE,
    },
    "C02": {
        "targets": ["spowtd.classify:find_stable_matching", "spowtd.classify:find_stable_matching#optimal",
                    "spowtd.classify:find_stable_matching#terminates",
                    "spowtd.classify:disambiguate_matching", "lemma:blocking_translation",
                    "lemma:prefix_sums_monotone", "lemma:point_decrement_sum"],
        "bounded": [_tables("C02")],
        "level_text": "Unbounded proof of the deferred-acceptance loop: loop invariants I1-I5 give at exit that no candidate "
                      "pair blocks the result (storm side by list position, rise side by preference value); and, with strict "
                      "preferences of the rises, for an ARBITRARY well-formed stable matching mu (logical variables) the invariant "
                      "'no storm has lost its mu-partner' gives that every storm does at least as well as in mu: the result is the "
                      "storm-optimal stable matching, hence independent of the order in which storms are served. disambiguate_matching "
                      "carries the property's own clause (no overlapping storm and rise, not matched to each other, with the storm "
                      "unmatched or strictly closer in duration and the rise unmatched or strictly closer in start) as a discharged "
                      "postcondition: candidate lists sorted by duration gap with the best last, preference = -|start offset|, every "
                      "candidate pair at a known place of its storm's list (ghost position maps through the append-only tables and "
                      "through sorted()), matched pairs read back with their tabulated gaps -- and lemma blocking_translation "
                      "(proved on its own) combines these with find_stable_matching's stability into the clause. Every obligation "
                      "proves without recorded hints in a few seconds. The table level is a bounded stand-in.",
        "level_note": _PURE_NOTE,
    },
    "C03": {
        "targets": ["spowtd.classify:get_true_interval_masks", "spowtd.classify:get_candidate_match_intervals",
                    "spowtd.classify:match_storms", "spowtd.classify:match_all_storms",
                    "lemma:run_counter_basic", "lemma:run_counter_separation"],
        "witness_from": {"spowtd.classify:get_candidate_match_intervals": "spowtd.classify:match_storms"},
        "bounded": [_tables("C03")],
        "level_text": "Unbounded proof that the run detector returns exactly the maximal True runs and that every pair returned "
                      "by match_storms is (maximal run of rain strictly above the threshold, maximal run of increments strictly "
                      "above the threshold). Epoch conventions and the rain-depth view are a bounded stand-in.",
        "level_note": _PURE_NOTE,
    },
    "C04": {
        "targets": ["spowtd.classify:get_mystery_jump_mask", "spowtd.classify:get_true_interval_masks",
                    "spowtd.classify:classify_interstorms", "lemma:run_counter_basic", "lemma:run_counter_separation"],
        "bounded": [_tables("C04")],
        "level_text": "Unbounded proof that the mystery-jump machine computes exactly the property's predicate (some rainy step "
                      "earlier and no jump at a rain-free sample since) and that runs are maximal; flags and interstorm rows at "
                      "table level are a bounded stand-in.",
        "level_note": _PURE_NOTE,
    },
    "C12": {
        "targets": ["spowtd.regrid:regrid"],
        "level_text": "Unbounded proof that regrid reports, for every pair of consecutive samples, exactly the multiples of the "
                      "step between them (lower value included, upper excluded), each once and in order, at the point where the "
                      "straight line through the two samples takes that value; brentq's sign-change precondition is an "
                      "obligation at the call.",
        "level_note": "Assumed contracts: scipy interp1d(kind='linear') is the piecewise-linear interpolant, brentq returns an "
                      "exact root inside its bracket (floats as reals: the one-ulp-beside-a-level corner is a rounding question "
                      "and is not decided). build_head_mapping's averaging is covered under C13.",
    },
    "C14": {
        "targets": ["spowtd.spline:Spline.domain", "spowtd.spline:Spline.__call__", "spowtd.spline:Spline.integrate",
                    "spowtd.specific_yield:SpecificYield.__call__", "spowtd.specific_yield:SpecificYield.integrate",
                    "lemma:integral_additive_antisymmetric"],
        "bounded": [{"run": "bounded.spline_checks:run_C14",
                     "what": "bounded validation of the FITPACK contracts (splrep interpolates the knots, splint = F(clamp b) - F(clamp a)) "
                             "and of the whole statement on real SplineSpecificYield objects against quadrature of their own __call__"}],
        "level_text": "Unbounded proof (real arithmetic, all positions of the limits relative to the knot range, either order, "
                      "incl. the recursive call for swapped limits) that Spline.__call__ is the spline at the clamped argument and "
                      "that Spline.integrate(a, b) = G(b) - G(a) for one antiderivative G of that clamped function; additivity and "
                      "antisymmetry are lemmas over this contract. Knot interpolation rests on the assumed contract of splrep and "
                      "is validated bounded.",
        "level_note": "Assumed: scipy splrep(s=0) interpolates its points; splev evaluates that spline; splint(a, b) = F(clamp b) - "
                      "F(clamp a) with F' = S on the knot range (FITPACK is zero outside). Floats as reals.",
    },
    "C17": {
        "targets": ["spowtd.simulate_rise:compute_rise_curve", "spowtd.simulate_rise:compute_rise_curve#mean",
                    "lemma:shifted_sum", "spowtd.specific_yield:SpecificYield.integrate",
                    "spowtd.spline:Spline.integrate", "lemma:telescoping",
                    "spowtd.simulate_rise:simulate_rise#observations", "spowtd.simulate_rise:simulate_rise#table"],
        "bounded": [{"run": "bounded.simulate_checks:run_C17",
                     "what": "refinement / monotonicity corollaries, validation of the assumed constructor contract and the file actually written by "
                             "simulate_rise (real functions, master-curve tables in a database built "
                             "from the real schema)"}],
        "level_text": "Unbounded proof that compute_rise_curve returns, for any grid, values whose pairwise differences are "
                      "G(level_j) - G(level_i), G being the antiderivative of the specific yield from C14's proved contract "
                      "(loop invariant + telescoping lemma proved by induction), and whose mean is the requested one (shifted-sum "
                      "lemma, real arithmetic). At command level, `simulate rise --observations` is under contract: the one value it "
                      "dumps is that curve on exactly the measured master-curve levels in ascending order, with the mean of the "
                      "measured storage (the call site relies on both verified contracts of compute_rise_curve); without "
                      "--observations the one table dumped holds, after its header row, (level in mm, measured storage, simulated "
                      "storage) per measured level in ascending order (texts and numbers in one table: guarded pairs).",
        "level_note": "Assumed: numpy cumsum / mean as in libspec; the FITPACK contracts of C14; create_specific_yield_function "
                      "(constructors, PyYAML) returns a specific-yield object over a non-degenerate spline; what yaml.dump writes for "
                      "a list of floats (bounded).",
    },
    "C18": {
        "targets": ["spowtd.simulate_recession:compute_recession_curve", "lemma:shifted_sum",
                    "spowtd.specific_yield:SpecificYield.__call__",
                    "spowtd.spline:Spline.__call__", "lemma:telescoping",
                    "spowtd.simulate_recession:simulate_recession",
                    "spowtd.simulate_recession:dump_simulated_recession#observations",
                    "spowtd.simulate_recession:dump_simulated_recession#table"],
        "bounded": [{"run": "bounded.simulate_checks:run_C18",
                     "what": "corollaries (direction, reversal, water balance at zero curvature), validation of the SQL contracts (the ET "
                             "average over the recession intervals' steps) and of the assumed constructor contracts, and the tabulated "
                             "(non --observations) output of dump_simulated_recession (real functions, tables in a database built from "
                             "the real schema, time-varying ET)"}],
        "level_text": "Unbounded proof that compute_recession_curve returns values whose pairwise differences are Q(z_j) - Q(z_i), Q the "
                      "antiderivative (assumed contract of quad) of the function handed to quad, that this function equals "
                      "Sy(z) / (-ET - curvature T(z)) at every level (ghost cut, real arithmetic), that its denominator never "
                      "vanishes, and that the mean is the requested one. At command level simulate_recession is under contract: "
                      "the measured curve is returned unchanged, the simulated one lives on exactly those levels converted cm -> mm, "
                      "has the mean of the measured elapsed times, curvature enters as m/km2 x 1e-3, the PEATCLSM transmissivity as "
                      "m2/s x 86400, and every precondition of compute_recession_curve (positive transmissivity, non-negative ET and "
                      "curvature, not both zero) is discharged at the call site; `simulate recession --observations` dumps exactly "
                      "that curve from the highest level to the lowest; without --observations the one table dumped holds, after its "
                      "header row, (level in MILLIMETRES = cm x 10, measured, simulated elapsed time) from the highest level down "
                      "(re-introducing defect D8 -- centimetres under a 'mm' heading -- is refuted by this postcondition).",
        "level_note": "Assumed: quad returns the exact integral; create_specific_yield_function / create_transmissivity_function "
                      "(constructors, PyYAML) return a specific-yield object over a non-degenerate spline / a positive function; the "
                      "dataset precondition 'site curvature >= 0 and (curvature > 0 or mean ET > 0)'; the SQL statements (incl. what "
                      "the ET average ranges over) through their contracts; floats as reals.",
    },
    "C15": {
        "targets": ["spowtd.transmissivity:SplineTransmissivity.conductivity", "spowtd.transmissivity:SplineTransmissivity.call_scalar",
                    "spowtd.transmissivity:SplineTransmissivity.__call__", "spowtd.transmissivity:SplineTransmissivity.__call__#array",
                    "spowtd.spline:Spline.__call__"],
        "bounded": [{"run": "bounded.transmissivity_checks:run_C15",
                     "what": "bounded validation on real SplineTransmissivity objects against the closed-form integral of the log-linear "
                             "conductivity: knots interpolated, minimum at/below the lowest knot, continuity, monotonicity, scalar == array"}],
        "level_text": "Unbounded proof that conductivity is exp of the log-conductivity spline at the (clamped) level and refuses levels at or "
                      "above the highest knot, that call_scalar returns the minimum at and below the lowest knot and otherwise the minimum "
                      "plus Q(level) - Q(lowest knot) for the antiderivative Q of that conductivity (quad's integrand is only needed inside "
                      "the open range, so the highest knot itself is admissible), and that the array path is the scalar path element-wise.",
        "level_note": "Assumed: splrep(k=1) gives the interpolating piecewise-linear spline of log K (representation invariant of the object, "
                      "validated bounded); quad returns the exact integral; exp uninterpreted with exp > 0. Monotonicity/continuity follow "
                      "from positivity of the integrand (mathematical step, validated bounded).",
    },
    "C16": {
        "targets": ["spowtd.specific_yield:campbell_1d_az", "spowtd.specific_yield:PeatclsmSpecificYield.get_Sy_soil",
                    "spowtd.specific_yield:PeatclsmSpecificYield._construct_spline", "spowtd.transmissivity:PeatclsmTransmissivity.__call__"],
        "bounded": [{"run": "bounded.peatclsm_checks:run_C16",
                     "what": "bounded validation against an independent transcription of the shipped R script (no R interpreter on this image): "
                             "published parameter set + seeded sets; transmissivity formula and refusal"}],
        "level_text": "Unbounded proof that campbell_1d_az equals the Campbell / microtopography expression of the R script, that get_Sy_soil "
                      "fills Sy_soil[i] with (1/dz_i) times the full sum over cells of dz_j (A_j(zu_i) - A_j(zl_i)) (double-loop invariants over "
                      "a 2-D partial-sum function), that _construct_spline tabulates 201 mid-point levels with soil + normcdf terms and returns "
                      "a spline through the table, and that PEATCLSM transmissivity is the stated formula and raises ValueError exactly above "
                      "zeta_max.",
        "level_note": "Assumed: norm.cdf and ** are uninterpreted; splrep(k=1) interpolates. 'Reproduces the R implementation' cannot be run "
                      "(no R): the R file is the source of the spec; its inner loop covers 200 cells where Python sums 201 — the extra term "
                      "is evaluated numerically and reported in the evidence.",
    },
    "C05": {
        "targets": ["spowtd.fit_offsets:split_mapping_by_keys", "spowtd.fit_offsets:find_offsets",
                    "spowtd.fit_offsets:build_head_mapping", "spowtd.fit_offsets:get_series_time_offsets"],
        "lean": ["LeastSquares.lean"],
        "bounded": [{"run": "bounded.fit_checks:run_C05",
                     "what": "validation of the numpy assumptions (dot, solve) and of the bridge: on every small connected "
                             "overlap structure the returned offsets are compared, in exact rational arithmetic, with 'the residuals "
                             "of every interval sum to zero' (the hypothesis of the Lean theorem) and with perturbed offsets"}],
        "level_text": "The mathematics is machine-checked in Lean 4 + Mathlib (lean/LeastSquares.lean, theorem c05 and lemmas): from "
                      "(A^T A) x = A^T b for the design matrix / vector of the property's objective, x minimises the summed squared "
                      "spread, every interval's residuals sum to zero, and the minimiser is unique up to a common shift on a connected "
                      "overlap graph. That find_offsets assembles exactly that A and b is an unbounded pyvc proof from its source: levels "
                      "with a single series are dropped and nothing else; the series ids are the ascending enumeration of the series "
                      "present, the reference is the last; rows are in bijection with (level, crossing) pairs (ghost maps row -> level, "
                      "crossing); every row has 1/n in the column of each non-reference series present at its level minus 1 in its own "
                      "column, and right-hand side crossing - level mean (= designA / designB of the Lean file); and the returned offsets "
                      "are what numpy.linalg.solve returned for np.dot(A.T, A), np.dot(A.T, b) of exactly those arrays, followed by 0 for "
                      "the reference (dataflow by provenance in the symbolic executor).",
        "level_note": "Assumed: numpy.dot / transpose / linalg.solve compute the matrix product and the solution of M x = v (floats as "
                      "reals; entries of products are not modelled). pyvc proves the system row by row over the PRESENT (level, series) pairs; "
                      "Lean's designA / designB are indexed by all pairs and vanish on the absent ones; that both have the same "
                      "A^T A and A^T b is machine-checked (theorems normal_eq_of_present_rows, present_rows_normal_eq, "
                      "c05_present_rows). What remains by reading: the row formula in contracts/fit_offsets.py (row_A, row_b) and "
                      "the definition of designA / designB in the Lean file are the same two formulas. get_series_time_offsets (sorting, head mapping, choice of "
                      "the connected group) around find_offsets is covered by the stand-ins of C08.",
    },
    "C08": {
        "targets": ["spowtd.fit_offsets:split_mapping_by_keys", "spowtd.fit_offsets:build_head_mapping",
                    "spowtd.fit_offsets:get_series_time_offsets", "spowtd.fit_offsets:find_offsets"],
        "lean_thorough": ["LeastSquares.lean"],
        "bounded": [{"run": "bounded.fit_checks:run_C08",
                     "what": "bounded stand-in for get_connected_components / get_series_time_offsets: all small overlap structures "
                             "(connected and disconnected): one connected group is returned, all of its intervals and no others; "
                             "relative alignment invariant under permutation of the intervals and under per-interval time shifts"}],
        "level_text": "Order / internal-zero independence is a corollary of the Lean theorem unique_up_to_shift (the minimiser is determined "
                      "by the set of intervals up to one constant). split_mapping_by_keys is proved; get_connected_components (dict keyed by "
                      "growing tuples, side-effecting comprehension: outside the pyvc subset) and the index plumbing of "
                      "get_series_time_offsets are a bounded stand-in.",
        "level_note": "Ties between equally large groups make the choice depend on dict order; the stand-in requires a unique largest group "
                      "for the 'same group after permutation' clause.",
    },
    "C09": {
        "targets": ["spowtd.rise:compute_rise_offsets", "spowtd.rise:compute_rise_offsets#reference",
                    "spowtd.recession:compute_offsets", "spowtd.recession:compute_offsets#reference"],
        "bounded": [{"run": "bounded.curves_checks:run_C09",
                     "what": "native sweep through the real rise / recession steps: grid steps {1, 0.1, 0.3, 2.5, ...} x multiples of the "
                             "step across the curve (accepted, curve zero there), off-grid references (refused), no reference (highest "
                             "level is the origin) - this is where floating-point rounding of reference / step is exercised"}],
        "level_text": "Unbounded proof (floats as reals) on compute_rise_offsets: without a reference the origin index is the largest level "
                      "of the fit's mapping; with one, a returning run has the reference within tolerance of (origin index x step) and the "
                      "refusal branch is only reached for non-multiples; the stored offsets are the fitted offsets minus the mean (offset + "
                      "crossing) of the origin level. The floating-point side (every decimal multiple accepted) is a bounded native sweep.",
        "level_note": "get_series_time_offsets enters through an assumed contract (validated bounded under C05/C08/C13); the same "
                      "obligations are discharged for recession.py's compute_offsets. 'Zero at the reference' "
                      "follows from 'offsets minus the mean over that level' by the algebra mean(x - mean(x)) = 0 (not an SMT obligation).",
    },
    "C13": {
        "targets": ["spowtd.rise:compute_rise_offsets", "spowtd.recession:compute_offsets",
                    "spowtd.zeta_grid:populate_zeta_grid", "spowtd.regrid:regrid",
                    "spowtd.fit_offsets:build_head_mapping", "spowtd.fit_offsets:build_head_mapping#means"],
        "bounded": [{"run": "bounded.curves_checks:run_C13",
                     "what": "bounded stand-in at table level (real workflow on planted datasets): every rising / recession interval row is a "
                             "matched rise / an interstorm interval, its crossings equal an independent computation from its own samples, "
                             "all levels are grid levels, the grid covers the observed range"}],
        "level_text": "Unbounded proof that compute_rise_offsets hands the fit exactly the segments (0, total depth of its storm) -> (initial, "
                      "final level) of the matched rises of the join, that each rising_interval row is the start epoch of the rise chosen by "
                      "the fit and each rising_interval_zeta row is (that start epoch, level, crossing) for an entry of the fit's mapping; "
                      "that populate_zeta_grid inserts floor(min/step) .. ceil(max/step)-1 and that the grid cells cover [min, max]; and "
                      "(C12) that regrid's crossings are exact; and that build_head_mapping (variant #means) enters for series s at level h the "
                      "arithmetic mean of exactly the positions regrid reports for s at h (ghost bijection between the crossings of a "
                      "level and the places of the list that is averaged; the entered value is the last partial sum of that list "
                      "divided by its length). The carry of those values through the sort and re-indexing of get_series_time_offsets "
                      "is part of its proved contract (second components unchanged); recession side at table level: bounded stand-in.",
        "level_note": "SQL statements and get_series_time_offsets enter through assumed contracts (validated bounded). Defensive checks of "
                      "database consistency inside the step may abort it (tolerated: partial correctness; C20 makes the abort harmless).",
    },
    "C06": {
        "targets": ["spowtd.regrid:regrid", "spowtd.rise:compute_rise_offsets", "spowtd.load:populate_water_level"],
        "lean_thorough": ["LeastSquares.lean"],
        "bounded": [{"run": "bounded.curves_checks:run_C06",
                     "what": "planted-truth datasets (recession curve piecewise linear on the sampling lattice, constant specific yield) "
                             "through the real CLI from text files to master-curve tables: both master curves equal the truth up to a "
                             "constant, aligned pieces coincide at every shared level"}],
        "level_text": "The pieces handed to the fit lie on the underlying curves only if the gridded water level is the straight-line "
                      "interpolation of adjacent measurements and never bridges a hole of the record: that is populate_water_level's "
                      "proved contract (C10), a target of this check as well. "
                      "Lemma over contracts: Lean theorem c06_perfect_alignment (lean/LeastSquares.lean) - if offsets with zero objective exist "
                      "and x minimises (C05), all shifted crossings at a level coincide - combined with the proved contracts of regrid (exact "
                      "crossings of the interpolant) and compute_rise_offsets (series = storage segments). That thresholds consistent with the "
                      "truth make classification find the planted intervals, and the CLI wiring, are exercised by the bounded stand-in.",
        "level_note": "The Lean file is compiled in the thorough tier here (it is compiled in the quick tier of C05).",
    },
    "C07": {
        "targets": ["spowtd.classify:classify_interstorms", "spowtd.classify:classify_interstorms#uf_rounding",
                    "lemma:origin_independence", "spowtd.classify:match_all_storms",
                    "spowtd.load:generate_timestamped_rows"],
        "bounded": [{"run": "bounded.curves_checks:run_C07",
                     "what": "bounded stand-in: the whole workflow on datasets shifted by multiples of the time step (30- and 20-minute "
                             "grids, with an increment exactly at threshold x step) and declared in another fixed-offset zone: flags, "
                             "intervals, matching and both master curves must be unchanged"}],
        "level_text": "Relational proof with UNINTERPRETED rounding: classify_interstorms is re-verified with every floating-point "
                      "operation read as an uninterpreted deterministic function of its operands, and its rise flag is shown to be "
                      "flag_jump evaluated the same way; lemma origin_independence then proves, in that mode, that adding one integer "
                      "to every epoch leaves the rise / unexplained-rise / interstorm flags unchanged (the absolute epoch reaches "
                      "floating-point operations only through exact integer differences). match_all_storms' rows are functions of "
                      "threshold x step and of levels only; timestamps via the localize contract. The whole-workflow statement "
                      "(matching, master curves, zones) is exercised by the bounded stand-in.",
        "level_note": "UF-rounding mode assumes only: a quotient of non-zero operands is non-zero with the sign of the exact "
                      "quotient (no underflow); int -> float conversion of epoch differences exact (< 2^53).",
    },
    "C20": {
        "targets": ["spowtd.classify:classify_intervals", "spowtd.classify:populate_zeta_interval",
                    "spowtd.classify:classify_interstorms", "spowtd.classify:match_all_storms",
                    "spowtd.zeta_grid:populate_zeta_grid", "spowtd.set_curvature:set_curvature",
                    "spowtd.rise:find_rise_offsets", "spowtd.rise:find_rise_offsets#reference",
                    "spowtd.rise:compute_rise_offsets", "spowtd.rise:compute_rise_offsets#reference",
                    "spowtd.recession:find_recession_offsets", "spowtd.recession:find_recession_offsets#reference",
                    "spowtd.recession:compute_offsets", "spowtd.recession:compute_offsets#reference"],
        "structural": ["pyvc.structural:main_obligations", "pyvc.structural:step_obligations", "pyvc.structural:frame_obligations"],
        "bounded": [{"run": "bounded.atomicity_checks:run_C20",
                     "what": "fault enumeration on a real database file: every SQL statement of every step as a failure point, a sample "
                             "as kill point (process exit without rollback), re-run after failure, all orders of the independent steps with "
                             "failed attempts in between - validates the assumed contract (SQLite atomic commit, Python sqlite3 "
                             "transaction handling) and the commutation claim"}],
        "level_text": "Typestate proof: a ghost flag `sealed` (a commit has happened in this step); every write statement of every step "
                      "function carries the obligation `not sealed`, loops carry it as invariant, connection.commit() sets it, and the step "
                      "functions' postconditions say they commit last (classify, rise, recession) or not at all (grid, curvature). With the "
                      "AST-level obligations on user_interface.main (each step is the only statement of one `with sqlite3.connect(args.db)` "
                      "block, no handler, no manual transaction control) and the assumed contract of SQLite / sqlite3, a failed or killed "
                      "step leaves the old content or the complete result. Commutation: read and write frames of every step are "
                      "extracted mechanically from the SQL texts of its module (views expanded through schema.sql; every identifier "
                      "naming a table counts as a read) and the Bernstein conditions are obligations for the four independent pairs "
                      "(classify / set-zeta-grid / set-curvature pairwise, rise / recession); exercised by the fault enumeration.",
        "level_note": "Assumed, never counted as proved: SQLite's journal / atomic commit, the OS, Python's sqlite3 (opens a transaction "
                      "before the first DML; `with` commits on normal exit and rolls back on exception). Commutation additionally assumes that a step is a function of the "
                      "tables it reads and its arguments (no other state: checked for SQL, not for files / environment).",
    },
    "C10": {
        "targets": ["spowtd.load:populate_grid_time", "spowtd.load:populate_rainfall_intensity",
                    "spowtd.load:populate_evapotranspiration", "spowtd.load:populate_water_level", "spowtd.load:load_data"],
        "structural": ["pyvc.structural:schema_obligations"],
        "bounded": [{"run": "bounded.load_checks:run_C10",
                     "what": "table level (validation of the SQL / np.interp contracts and stand-in for the glue in load_data): real "
                             "load_data on generated files (water level on the same / a different step than rainfall, aligned or not, "
                             "single and double gaps, short gaps of 1.25-2 x the minimal step with a grid instant inside, shuffled rows): "
                             "grid, rainfall / ET copies, interpolated water levels, nothing strictly inside a gap, distinct labels per stretch"}],
        "level_text": "Unbounded proof that populate_grid_time returns the staged rainfall instants within the water-level span plus one "
                      "closing instant, uniformly spaced with a positive step, and reaches its refusal only for fewer than two instants or "
                      "unequal steps; and that populate_water_level leaves a grid instant without label exactly when it lies strictly "
                      "inside a gap of the source record (a source step other than the minimal one), gives two labelled instants the same "
                      "label exactly when no gap separates them, writes the label updates for the labelled instants in order, and writes "
                      "one water level for every labelled instant before the closing one, equal to the straight-line interpolation "
                      "between two adjacent source measurements that bracket it (loop invariant over the stretches with a ghost map "
                      "instant -> stretch; np.interp through an assumed contract). load_data itself is under contract: the staging "
                      "inserts, then the four populate_* functions in order, each precondition discharged at its call site (what "
                      "populate_water_level requires of the grid follows from what populate_grid_time ensures), every stored grid "
                      "instant offered to populate_water_level, one commit at the very end; csv / file objects are opaque.",
        "level_note": "SQL statements enter through assumed contracts (row order of the staging tables = rowid order = epoch order is one "
                      "of them); np.interp is an assumed contract (piecewise-linear interpolant, needs increasing abscissae: an obligation).",
    },
    "C11": {
        "targets": ["spowtd.load:generate_timestamped_rows", "spowtd.load:populate_grid_time",
                    "spowtd.load:populate_evapotranspiration", "spowtd.load:load_data"],
        "structural": ["pyvc.structural:schema_obligations"],
        "bounded": [{"run": "bounded.load_checks:run_C11",
                     "what": "validation of the assumed pytz contract on sampled zones (fixed-offset, DST, half-hour, zones whose local mean "
                             "time differs from today's offset) x seeded instants, and the three refusals through the real load_data "
                             "(non-uniform rainfall, missing ET, already populated: refused and nothing merged)"}],
        "level_text": "Unbounded proof, relative to the assumed contract of tz.localize (the instant whose rendering in the zone is the given "
                      "wall time), that every yielded row starts with an integer epoch rendering back to the input text and passes the other "
                      "fields through, and that a non-integer number of seconds is refused; that the non-uniform-step refusal and the "
                      "missing-ET refusal are reached exactly in those situations and before any write of the function; and that "
                      "load_data raises its 'already populated' ValueError exactly when the database holds a table, before anything "
                      "is written, and otherwise runs the schema script (structural obligation: CREATE statements only) on the "
                      "empty database.",
        "level_note": "Correctness of pytz's tables for all IANA zones is the dependency's; validated on sampled zones only.",
    },
    "C19": {
        "not_applicable": "generated files are text assembled with str.format / ljust / join, which the pyvc value model treats as "
                          "opaque strings: no contract within reach states or decides 'counts, names and order agree across three "
                          "text files and a YAML dump, and every printed float reads back through columns 3:24'. The bounded stand-in "
                          "bounded/pest_checks.py (./check C19) exists and reports two recorded findings, but it is not a "
                          "contract-based proof and is therefore not claimed.",
        "targets": [],
        "bounded": [{"run": "bounded.pest_checks:run_C19",
                     "what": "the real pestfiles functions and simulate commands on master-curve tables of several sizes, both "
                             "parameterisations and two knot counts; the files are read the way PEST reads them (control-data counts, "
                             "parameter / observation lines, placeholders, `l1 [e]3:24` applied to the simulation output, float read-back)"}],
        "category": "fault_enumeration",
        "level_text": "Bounded only: generated files are text assembled with str.format / ljust / join, which pyvc models opaquely, so no "
                      "obligation about their content can be discharged in this revision; the property is checked on enumerated table sizes "
                      "and parameter sets by interpreting the three files as PEST does. Two clause-level defects are recorded as known "
                      "findings (parameter-name case, 22-column extraction window).",
        "level_note": "PEST's reading of the files is taken from its manual (NPAR / NOBS fields, primary markers, l1, fixed columns).",
        "technique": "bounded stand-in (native enumeration) - contract-based proof not applicable to opaque string formatting in this revision",
    },
}
