"""Which functions, lemmas, bounded validations and Lean files decide which property."""

CLASSIFY_PURE = [
    "spowtd.classify:assert_equal",
    "spowtd.classify:get_mystery_jump_mask",
    "spowtd.classify:get_true_interval_masks",
    "spowtd.classify:find_stable_matching",
    "lemma:run_counter_basic",
    "lemma:run_counter_separation",
]

PROPS = {
    "C01": {
        "targets": CLASSIFY_PURE,
        "level_text": "Unbounded proof, function by function, that the pure classification functions (run detector, "
                      "mystery-jump machine, deferred-acceptance loop) meet contracts written from the property: no "
                      "exception on any admitted input, one-to-one pairing, candidate pairs only. Obligations come "
                      "from the AST of the current /repo source on every run.",
        "level_note": "Assumed: numpy primitives as specified in pyvc/libspec.py (validated against the installed "
                      "numpy on small arrays); floats as reals; termination of the while loop not proved; SQL layer "
                      "not yet under contract in this revision.",
    },
}
