"""Verifier context: module cache, name resolution, contract registry, per-function driver."""
import ast
import os
import time

import z3

from .values import EngineError, Seq, DictV, SetV, Opaque, I, R, B, uid, to_z3, fresh, parse_type, type_of
from .engine import (Exec, RepoModule, Builtin, RepoFunction, ModuleRef, SpecFunction, State, Closure)
from .contracts import Registry
from . import libspec
from .objects import Objects

REPO = os.environ.get("SPOWTD_REPO", "/repo")


class Verifier:
    def __init__(self, repo_root=REPO, contracts_dir=None):
        self.repo_root = repo_root
        self.modules = {}
        self.registry = Registry()
        if contracts_dir:
            self.registry.load_dir(contracts_dir)
        self.lib = libspec.Lib(self)
        self.objects = Objects(self)
        self._ufs = {}
        self.nonlinear = "uf"      # 'uf': products/quotients of symbolic terms are uninterpreted; 'nra': real arithmetic
        try:
            import numpy
            self.numpy_version = numpy.__version__
            self._numpy = numpy
        except Exception:
            self.numpy_version = "?"
            self._numpy = None

    def uf(self, name, *sorts):
        if name not in self._ufs:
            self._ufs[name] = z3.Function(name, *sorts)
        return self._ufs[name]

    def module(self, modname):
        if modname not in self.modules:
            self.modules[modname] = RepoModule(self.repo_root, modname)
        return self.modules[modname]

    # ------------------------------------------------------------------ names
    def resolve_global(self, module, name):
        if name in module.functions:
            return RepoFunction(module.modname, name)
        if name in module.imports:
            return self._canonical(module.imports[name])
        if name in module.constants:
            node = module.constants[name]
            try:
                v = ast.literal_eval(node)
                if isinstance(v, (str, int, bool)):
                    return v
            except Exception:
                pass
            if isinstance(node, ast.Attribute):
                d = self._dotted(node)
                if d:
                    return self.resolve_dotted(module, d)
            if name == "LOG":
                return Opaque("logger")
            return Opaque("module-constant", name=name)
        if name in libspec.PY_BUILTINS:
            return Builtin(name)
        if name in libspec.EXCEPTIONS:
            return Builtin("exc_" + name)
        return None

    def _dotted(self, node):
        parts = []
        while isinstance(node, ast.Attribute):
            parts.append(node.attr)
            node = node.value
        if isinstance(node, ast.Name):
            parts.append(node.id)
            return ".".join(reversed(parts))
        return None

    def resolve_dotted(self, module, dotted, canonical=False):
        if canonical:
            return self._canonical(dotted)
        head, _, rest = dotted.partition(".")
        if head in module.imports:
            full = module.imports[head] + ("." + rest if rest else "")
            return self._canonical(full)
        if head in module.constants and isinstance(module.constants[head], ast.Attribute):
            base = self._dotted(module.constants[head])
            if base:
                return self.resolve_dotted(module, base + ("." + rest if rest else ""))
        return None

    def _canonical(self, full):
        if full in libspec.CANON:
            return Builtin(libspec.CANON[full])
        if full.startswith("spowtd."):
            parts = full.split(".")
            # spowtd.mod or spowtd.mod.func
            for k in (2, 1):
                modname = ".".join(parts[:k + 1]) if k + 1 <= len(parts) else None
                if modname and os.path.exists(os.path.join(self.repo_root, *modname.split(".")) + ".py"):
                    rest = parts[k + 1:]
                    if not rest:
                        return ModuleRef(modname)
                    mod = self.module(modname)
                    if len(rest) == 1 and rest[0] in mod.functions:
                        return RepoFunction(modname, rest[0])
                    if len(rest) == 1:
                        # a class: constructor
                        return Opaque("class", module=modname, name=rest[0])
                    if len(rest) == 2 and ".".join(rest) in mod.functions:
                        return RepoFunction(modname, rest[1], cls=rest[0])
            return None
        known_modules = ("numpy", "numpy.linalg", "scipy", "scipy.stats", "scipy.stats.norm", "scipy.integrate",
                         "scipy.interpolate", "scipy.optimize", "math", "os", "os.path", "yaml", "pytz", "csv",
                         "datetime", "datetime.datetime", "datetime.timezone", "sqlite3", "logging", "collections")
        if full in known_modules:
            return ModuleRef(full)
        h = self.objects.library_function(full)
        if h is not None:
            return h
        return None

    def method_of(self, ex, attr, obj=None):
        """Resolve obj.attr to a method of obj's class (or of a base class in the same module)."""
        cls_target = obj.get("__class__") if obj is not None else None
        if cls_target:
            modname, cls = cls_target.split(":")
        else:
            modname, cls = ex.module.modname, ex.cls
        mod = self.module(modname)
        for c in self.mro(mod, cls):
            if "%s.%s" % (c, attr) in mod.functions:
                return RepoFunction(modname, attr, cls=c, receiver=obj)
        return None

    def mro(self, mod, cls):
        out = [cls]
        for node in mod.tree.body:
            if isinstance(node, ast.ClassDef) and node.name == cls:
                for b in node.bases:
                    if isinstance(b, ast.Name):
                        out += self.mro(mod, b.id)
        return out

    def havoc_db(self, ex, st, db):
        return self.objects.havoc_db(ex, st, db)

    def apply_lemma(self, ex, st, sp, args, node):
        """Calling a lemma in ghost / contract text: its requires become obligations, its ensures assumptions."""
        c = self.registry.lemmas[sp.name]
        params = [a.arg for a in sp.node.args.args]
        fr = State()
        fr.locals = dict(zip(params, args))
        fr.pc = st.pc
        saved = ex.checking
        for rq in c.requires:
            ex.checking = False
            try:
                g = ex.truth(ex.eval(rq, fr))
            finally:
                ex.checking = saved
            ex.oblige(st, g, "lemma-pre[%s]" % sp.name, node)
        from .values import zimp, zand
        for e in c.ensures:
            ex.checking = False
            try:
                fact = ex.truth(ex.eval(e, fr))
            finally:
                ex.checking = saved
            # the lemma was applied under the temporary conditions of the enclosing expression
            st.assume(zimp(zand(*st.temps), fact))
        return True

    # ------------------------------------------------------------------ driver
    def vc(self, target):
        """Generate the obligations of one function (or lemma).  Returns (Exec, obligations)."""
        if target.startswith("lemma:"):
            return self.vc_lemma(target[6:])
        c = self.registry.contracts.get(target)
        if c is None:
            raise EngineError("no contract for %s" % target)
        modname, qual = target.split("#")[0].split(":")
        mod = self.module(modname)
        if qual not in mod.functions:
            raise EngineError("function %s not found in %s" % (qual, mod.path))
        ex = Exec(self, mod, qual, c)
        self.nonlinear = c.options.get("nonlinear", "uf")
        self.float_mode = c.options.get("float_mode", "R")
        obls = ex.run()
        return ex, obls

    def vc_lemma(self, name):
        c = self.registry.lemmas[name]
        self.nonlinear = c.options.get("nonlinear", "uf")
        self.float_mode = c.options.get("float_mode", "R")
        ex = LemmaExec(self, c)
        return ex, ex.run()


class LemmaExec(Exec):
    """A lemma is ghost Python in the sidecar: parameters are universally quantified, the body
    (loops with invariants = induction) is executed like any function."""

    def __init__(self, ctx, contract):
        self.ctx = ctx
        self.module = _SidecarModule(contract.source_file)
        self.qual = contract.fnode.name
        self.fnode = _strip_clauses(contract)
        self.cls = None
        self.contract = contract
        self.obls = []
        self.trivial = 0
        self.exits = []
        self.loop_ordinal = 0
        self.checking = True
        self.binders = 0
        self.bound_stack = []
        self.notes = []
        self.is_generator = False
        self.fnname = "lemma." + self.qual


class _SidecarModule:
    def __init__(self, path):
        self.modname = "sidecar"
        self.path = path
        self.functions = {}
        self.imports = {}
        self.constants = {}


def _strip_clauses(contract):
    import copy
    fn = copy.copy(contract.fnode)
    fn.body = list(contract.body) or [ast.Pass(lineno=fn.lineno, col_offset=0)]
    return fn
