"""Normal form for assumed formulas: distribute forall over conjunctions, merge nested
universal quantifiers and chained implications, keep explicit triggers when they still cover
all bound variables.  Purely equivalence-preserving; makes instantiation far more predictable."""
import z3

from .values import bvar, uid


def _consts_in(t, names):
    out = set()
    seen = set()
    todo = [t]
    while todo:
        x = todo.pop()
        if x.get_id() in seen:
            continue
        seen.add(x.get_id())
        if z3.is_app(x):
            if x.num_args() == 0 and x.decl().name() in names:
                out.add(x.decl().name())
            todo.extend(x.children())
        elif z3.is_quantifier(x):
            todo.append(x.body())
    return out


def _open(q):
    """Open a forall: fresh bound constants, body, explicit patterns (lists of terms)."""
    n = q.num_vars()
    vs = [z3.Const(uid(q.var_name(i)), q.var_sort(i)) for i in range(n)]
    from .values import BOUND
    for v in vs:
        BOUND.add(v.decl().name())
    body = z3.substitute_vars(q.body(), *reversed(vs))
    pats = []
    for i in range(q.num_patterns()):
        p = z3.substitute_vars(q.pattern(i), *reversed(vs))
        pats.append(list(p.children()))
    return vs, body, pats


def _mk(vs, ante, cons, pats):
    if not vs:
        return z3.Implies(z3.And(*ante), cons) if ante else cons
    body = z3.Implies(z3.And(*ante) if len(ante) > 1 else ante[0], cons) if ante else cons
    names = {v.decl().name() for v in vs}
    good = []
    for p in pats:
        cov = set()
        for t in p:
            cov |= _consts_in(t, names)
        if cov == names:
            good.append(z3.MultiPattern(*p) if len(p) > 1 else p[0])
    # variables that do not occur in the body are dropped
    used = _consts_in(body, names)
    vs2 = [v for v in vs if v.decl().name() in used]
    if not vs2:
        return body
    if len(vs2) != len(vs):
        good = []
    try:
        return z3.ForAll(vs2, body, patterns=good) if good else z3.ForAll(vs2, body)
    except z3.Z3Exception:
        return z3.ForAll(vs2, body)


def normalize(f, vs=None, ante=None, pats=None, depth=0):
    vs = list(vs or [])
    ante = list(ante or [])
    pats = list(pats or [])
    if depth > 10:
        return [_mk(vs, ante, f, pats)]
    if z3.is_and(f):
        out = []
        for c in f.children():
            out.extend(normalize(c, vs, ante, pats, depth + 1))
        return out
    if z3.is_implies(f):
        a, b = f.children()
        return normalize(b, vs, ante + (list(a.children()) if z3.is_and(a) else [a]), pats, depth + 1)
    if z3.is_quantifier(f) and f.is_forall():
        ivs, body, ipats = _open(f)
        return normalize(body, vs + ivs, ante, ipats if ipats else pats, depth + 1)
    if z3.is_true(f):
        return []
    return [_mk(vs, ante, f, pats)]
