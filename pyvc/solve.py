"""Discharge obligations: z3 (Python API) with seed retries, then cvc5 on the SMT-LIB dump."""
import os
import subprocess
import tempfile
import time

import z3


def smt2_of(obl):
    s = z3.Solver()
    s.add(*obl.hyps)
    s.add(z3.Not(obl.goal))
    return s.to_smt2()


def discharge(obl, timeout_ms=20000, seeds=(0, 7, 23), use_cvc5=True, want_model=False):
    """Returns dict(status=proved|refuted|unknown, backend, seconds, model?)"""
    t0 = time.time()
    last = "unknown"
    for k, seed in enumerate(seeds):
        s = z3.Solver()
        s.set("timeout", int(timeout_ms if k == 0 else timeout_ms // 2))
        if seed:
            s.set("random_seed", seed)
            s.set("smt.random_seed", seed) if False else None
        s.add(*obl.hyps)
        s.add(z3.Not(obl.goal))
        r = s.check()
        if r == z3.unsat:
            return {"status": "proved", "backend": "z3-%s seed=%d" % (z3.get_version_string(), seed), "seconds": time.time() - t0}
        if r == z3.sat:
            out = {"status": "refuted", "backend": "z3-%s seed=%d" % (z3.get_version_string(), seed), "seconds": time.time() - t0}
            if want_model:
                out["model"] = s.model()
            return out
        last = s.reason_unknown()
    if use_cvc5:
        r = cvc5_check(smt2_of(obl), timeout_ms)
        if r == "unsat":
            return {"status": "proved", "backend": "cvc5", "seconds": time.time() - t0}
        if r == "sat":
            return {"status": "refuted", "backend": "cvc5", "seconds": time.time() - t0}
    return {"status": "unknown", "backend": "z3+cvc5", "seconds": time.time() - t0, "reason": str(last)}


def cvc5_check(smt2, timeout_ms):
    exe = "/usr/bin/cvc5"
    if not os.path.exists(exe):
        return "unknown"
    with tempfile.NamedTemporaryFile("w", suffix=".smt2", delete=False) as f:
        f.write("(set-logic ALL)\n" + smt2)
        path = f.name
    try:
        p = subprocess.run([exe, "--tlimit=%d" % timeout_ms, "--full-saturate-quant", path],
                           capture_output=True, text=True, timeout=timeout_ms / 1000 + 10)
        out = p.stdout.strip().splitlines()
        return out[0] if out else "unknown"
    except Exception:
        return "unknown"
    finally:
        os.unlink(path)
