"""Discharge obligations: z3 (Python API) with seed retries, then cvc5 on the SMT-LIB dump."""
import os
import subprocess
import tempfile
import time

import z3


def smt2_of(obl):
    s = z3.Solver()
    s.add(*obl.hyps)
    s.add(z3.Not(obl.goal))
    return s.to_smt2()


PORTFOLIO = [
    ("z3 default", {}),
    ("z3 mbqi-only", {"smt.ematching": False}),
    ("z3 seed7", {"smt.random_seed": 7}),
    ("z3 ematching-only", {"smt.mbqi": False, "smt.random_seed": 3}),
]


def _symbols(e, cache):
    k = e.get_id()
    if k in cache:
        return cache[k]
    out = set()
    seen = set()
    todo = [e]
    while todo:
        x = todo.pop()
        i = x.get_id()
        if i in seen:
            continue
        seen.add(i)
        if z3.is_quantifier(x):
            todo.append(x.body())
            for p in range(x.num_patterns()):
                todo.append(x.pattern(p))
        elif z3.is_app(x):
            if x.decl().kind() == z3.Z3_OP_UNINTERPRETED:
                out.add(x.decl().name())
            todo.extend(x.children())
    cache[k] = out
    return out


def slices(obl, levels=(1, 2, 3)):
    """Relevance slices of the hypotheses: those sharing an uninterpreted symbol with the goal,
    transitively to depth k.  Proving from a subset of the hypotheses is sound."""
    cache = {}
    hs = [(h, _symbols(h, cache)) for h in obl.hyps]
    cur = set(_symbols(obl.goal, cache))
    out = []
    chosen = []
    for lvl in range(1, max(levels) + 1):
        chosen = [h for h, sy in hs if sy & cur]
        for h, sy in hs:
            if sy & cur:
                cur = cur | sy
        if lvl in levels and len(chosen) < len(hs):
            if not out or len(chosen) > len(out[-1][1]):
                out.append(("slice%d" % lvl, chosen))
    out.append(("all", list(obl.hyps)))
    return out


RL_PER_MS = 12000    # resource units per millisecond of nominal budget (generous; wall-clock limits are the safety net)


def _try(hyps, goal, cfg, tmo, want_model=False):
    """One solver attempt.  The budget is a deterministic resource limit (z3 rlimit), so the
    verdict does not depend on machine load; the wall-clock timeout / interrupt are safety nets."""
    s = z3.Solver()
    s.set("rlimit", int(max(tmo, 300) * RL_PER_MS))
    s.set("timeout", int(max(tmo, 300) * 6))
    for k, v in cfg.items():
        s.set(k, v)
    s.add(*hyps)
    s.add(z3.Not(goal))
    r = s.check()
    return r, s


import hashlib
import json
import re

_HINTS = None
HINTS_PATH = os.path.join(os.path.dirname(os.path.dirname(os.path.abspath(__file__))), "proof_hints.json")


def fingerprint(e):
    """Hash of a formula with the numeric suffixes of fresh names erased."""
    return hashlib.sha1(re.sub(r"!\d+", "!", e.sexpr()).encode()).hexdigest()[:16]


def hints():
    global _HINTS
    if _HINTS is None:
        try:
            with open(HINTS_PATH) as f:
                _HINTS = json.load(f)
        except Exception:
            _HINTS = {}
    return _HINTS


def hint_key(obl):
    return re.sub(r":L\d+:", ":", obl.name) + "|" + fingerprint(obl.goal)


def core_of(obl, hyps, cfg, tmo=30000):
    """Unsat core (as hypothesis fingerprints) of a proved obligation."""
    s = z3.Solver()
    s.set("timeout", tmo)
    s.set(unsat_core=True)
    for k, v in cfg.items():
        s.set(k, v)
    names = {}
    for i, h in enumerate(hyps):
        b = z3.Bool("hyp!%d" % i)
        names[str(b)] = h
        s.assert_and_track(h, b)
    s.add(z3.Not(obl.goal))
    import threading
    timer = threading.Timer(tmo / 1000.0 * 1.5 + 1, s.ctx.interrupt)
    timer.start()
    try:
        r = s.check()
    except z3.Z3Exception:
        r = z3.unknown
    finally:
        timer.cancel()
    if r != z3.unsat:
        return None
    return sorted({fingerprint(names[str(b)]) for b in s.unsat_core()})


def discharge(obl, timeout_ms=20000, use_cvc5=True, want_model=False, record=None, **_):
    """Portfolio over relevance slices x solver configurations.  The first `unsat` proves the
    obligation (a subset of the hypotheses suffices); `sat` on the full set refutes it."""
    t0 = time.time()
    last = "unknown"
    # 0. a recorded proof hint: the hypotheses that sufficed last time (soundness does not depend
    #    on the hint: it only selects a subset of the real hypotheses)
    h = hints().get(hint_key(obl))
    if h:
        want = set(h["core"])
        sub = [x for x in obl.hyps if fingerprint(x) in want]
        for cname, cfg in ([c for c in PORTFOLIO if c[0] == h.get("cfg")] + PORTFOLIO[:2])[:3]:
            r, s = _try(sub, obl.goal, cfg, 8000)
            if r == z3.unsat:
                return {"status": "proved", "backend": "%s/hint-core[%d of %d hyps] (z3 %s)" % (cname, len(sub), len(obl.hyps), z3.get_version_string()),
                        "seconds": time.time() - t0}
    sl = slices(obl)
    plan = []
    for budget in (250, timeout_ms // 5):
        for sname, hyps in sl:
            for cname, cfg in PORTFOLIO[:2] if budget == 250 else PORTFOLIO:
                plan.append((sname, hyps, cname, cfg, budget))
    deadline = t0 + 2.5 * timeout_ms / 1000.0
    for sname, hyps, cname, cfg, budget in plan:
        if time.time() > deadline:
            break
        r, s = _try(hyps, obl.goal, cfg, budget)
        if r == z3.unsat:
            if record is not None:
                core = core_of(obl, hyps, cfg)
                record[hint_key(obl)] = {"core": core if core is not None else sorted({fingerprint(x) for x in hyps}), "cfg": cname}
            return {"status": "proved", "backend": "%s/%s (z3 %s)" % (cname, sname, z3.get_version_string()), "seconds": time.time() - t0}
        if r == z3.sat and sname == "all":
            out = {"status": "refuted", "backend": "%s (z3 %s)" % (cname, z3.get_version_string()), "seconds": time.time() - t0}
            if want_model:
                out["model"] = s.model()
            return out
        if r == z3.unknown:
            last = s.reason_unknown()
    if use_cvc5:
        r = cvc5_check(smt2_of(obl), timeout_ms // 2)
        if r == "unsat":
            return {"status": "proved", "backend": "cvc5", "seconds": time.time() - t0}
        if r == "sat":
            return {"status": "refuted", "backend": "cvc5", "seconds": time.time() - t0}
    return {"status": "unknown", "backend": "z3 portfolio + cvc5", "seconds": time.time() - t0, "reason": str(last)}


def cvc5_check(smt2, timeout_ms):
    exe = "/usr/bin/cvc5"
    if not os.path.exists(exe):
        return "unknown"
    with tempfile.NamedTemporaryFile("w", suffix=".smt2", delete=False) as f:
        f.write("(set-logic ALL)\n" + smt2)
        path = f.name
    try:
        p = subprocess.run([exe, "--tlimit=%d" % timeout_ms, "--full-saturate-quant", path],
                           capture_output=True, text=True, timeout=timeout_ms / 1000 + 10)
        out = p.stdout.strip().splitlines()
        return out[0] if out else "unknown"
    except Exception:
        return "unknown"
    finally:
        os.unlink(path)
