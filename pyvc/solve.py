"""Discharge obligations: staged portfolio over relevance slices x z3 configurations, each attempt in
a fresh z3 context with a deterministic resource budget; cvc5 on the SMT-LIB dump as last resort."""
import hashlib
import json
import os
import re
import subprocess
import tempfile
import threading
import time

import z3

RL_PER_MS = 12000    # resource units per millisecond of nominal budget (generous; wall-clock limits are the safety net)

if not os.environ.get("PYVC_DIO"):
    # the Diophantine handler of z3's arithmetic solver was caught ignoring rlimit, timeout and interrupt (a solver
    # process spinning for ten minutes in lp::dioph_eq): switched off for every context created from here on
    try:
        z3.set_param("lp.dio", False)
    except z3.Z3Exception:
        pass

PORTFOLIO = [
    ("z3 default", {}),
    ("z3 mbqi-only", {"smt.ematching": False}),
    ("z3 seed7", {"smt.random_seed": 7}),
    ("z3 ematching-only", {"smt.mbqi": False, "smt.random_seed": 3}),
]


def smt2_of(obl):
    s = z3.Solver()
    s.add(*obl.hyps)
    s.add(z3.Not(obl.goal))
    return s.to_smt2()


def _symbols(e, cache):
    k = e.get_id()
    if k in cache:
        return cache[k]
    out = set()
    seen = set()
    todo = [e]
    while todo:
        x = todo.pop()
        i = x.get_id()
        if i in seen:
            continue
        seen.add(i)
        if z3.is_quantifier(x):
            todo.append(x.body())
            for p in range(x.num_patterns()):
                todo.append(x.pattern(p))
        elif z3.is_app(x):
            if x.decl().kind() == z3.Z3_OP_UNINTERPRETED:
                out.add(x.decl().name())
            todo.extend(x.children())
    cache[k] = out
    return out


def slices(obl, levels=(1, 2, 3)):
    """Relevance slices of the hypotheses: those sharing an uninterpreted symbol with the goal,
    transitively to depth k.  Proving from a subset of the hypotheses is sound."""
    cache = {}
    hs = [(h, _symbols(h, cache)) for h in obl.hyps]
    cur = set(_symbols(obl.goal, cache))
    out = []
    for lvl in range(1, max(levels) + 1):
        chosen = [h for h, sy in hs if sy & cur]
        for h, sy in hs:
            if sy & cur:
                cur = cur | sy
        if lvl in levels and len(chosen) < len(hs):
            if not out or len(chosen) > len(out[-1][1]):
                out.append(("slice%d" % lvl, chosen))
    out.append(("all", list(obl.hyps)))
    return out


def _try(hyps, goal, cfg, tmo, core=False):
    """One solver attempt in a FRESH z3 context (the verdict then depends on the query only, not on
    what was solved earlier in this process).  The budget is a deterministic resource limit (rlimit),
    so machine load does not change the verdict; wall-clock timeout and interrupt are safety nets."""
    ctx = z3.Context()
    s = z3.Solver(ctx=ctx)

    s.set("rlimit", int(max(tmo, 200) * RL_PER_MS))
    s.set("timeout", int(max(tmo, 200) * 10 + 5000))
    if core:
        s.set(unsat_core=True)
    for k, v in cfg.items():
        s.set(k, v)
    names = {}
    for i, h in enumerate(hyps):
        if core:
            b = z3.Bool("hyp!%d" % i, ctx)
            names[str(b)] = h
            s.assert_and_track(h.translate(ctx), b)
        else:
            s.add(h.translate(ctx))
    s.add(z3.Not(goal.translate(ctx)))
    timer = threading.Timer(max(tmo, 200) / 1000.0 * 12 + 8.0, ctx.interrupt)
    timer.start()
    try:
        r = s.check()
    except z3.Z3Exception:
        r = z3.unknown
    finally:
        timer.cancel()
    verdict = "unsat" if r == z3.unsat else ("sat" if r == z3.sat else "unknown")
    info = None
    if verdict == "unsat" and core:
        info = [names[str(b)] for b in s.unsat_core()]
    elif verdict == "unknown":
        try:
            info = s.reason_unknown()
        except Exception:
            info = "unknown"
    return verdict, info


# ----------------------------------------------------------------------------- proof hints

_HINTS = None
HINTS_PATH = os.path.join(os.path.dirname(os.path.dirname(os.path.abspath(__file__))), "proof_hints.json")


def fingerprint(e):
    """Hash of a formula with the numeric suffixes of fresh names erased."""
    return hashlib.sha1(re.sub(r"!\d+", "!", e.sexpr()).encode()).hexdigest()[:16]


def hints():
    global _HINTS
    if os.environ.get("PYVC_NO_HINTS"):
        return {}
    if _HINTS is None:
        try:
            with open(HINTS_PATH) as f:
                _HINTS = json.load(f)
        except Exception:
            _HINTS = {}
    return _HINTS


def hint_key(obl):
    return re.sub(r":L\d+:", ":", obl.name) + "|" + fingerprint(obl.goal)


def core_of(obl, hyps, cfg, tmo=4000):
    """Unsat core (as hypothesis fingerprints) of a proved obligation; None when it cannot be had."""
    verdict, info = _try(hyps, obl.goal, cfg, tmo, core=True)
    if verdict != "unsat":
        return None
    return sorted({fingerprint(h) for h in info})


def discharge(obl, timeout_ms=20000, use_cvc5=True, want_model=False, record=None, cheap_only=False, **_):
    """Discharge in a forked child with a hard wall-clock limit: some z3 procedures (the Diophantine handler of the
    arithmetic solver was caught at it) honour neither the resource limit nor the timeout nor an interrupt; the child is
    killed and the obligation counts as undecided ("hard wall-clock limit"), never as proved or refuted."""
    if os.environ.get("PYVC_NO_FORK"):
        return _discharge(obl, timeout_ms, use_cvc5, record, cheap_only)
    import select
    hard = 90.0 + timeout_ms / 1000.0 * 3          # quick: 150 s, thorough: 450 s per obligation
    t0 = time.time()
    rfd, wfd = os.pipe()
    pid = os.fork()
    if pid == 0:
        try:
            os.close(rfd)
            rec = {} if record is not None else None
            r = _discharge(obl, timeout_ms, use_cvc5, rec, cheap_only)
            with os.fdopen(wfd, "w") as f:
                json.dump({"result": r, "record": rec}, f)
        except BaseException as e:          # noqa
            try:
                os.write(wfd, json.dumps({"result": {"status": "unknown", "backend": "z3 portfolio", "seconds": time.time() - t0,
                                                     "reason": "solver process failed: %r" % (e,)}, "record": None}).encode())
            except Exception:
                pass
        finally:
            os._exit(0)
    os.close(wfd)
    chunks = []
    killed = False
    while True:
        left = hard - (time.time() - t0)
        if left <= 0:
            killed = True
            break
        ready, _, _ = select.select([rfd], [], [], min(left, 5.0))
        if ready:
            b = os.read(rfd, 1 << 16)
            if not b:
                break
            chunks.append(b)
    os.close(rfd)
    if killed:
        try:
            os.kill(pid, 9)
        except OSError:
            pass
    try:
        os.waitpid(pid, 0)
    except OSError:
        pass
    if not killed and chunks:
        try:
            d = json.loads(b"".join(chunks).decode())
            if record is not None and d.get("record"):
                record.update(d["record"])
            return d["result"]
        except Exception:
            pass
    return {"status": "unknown", "backend": "z3 portfolio + cvc5", "seconds": time.time() - t0,
            "reason": "hard wall-clock limit of %.0f s (the solver process did not return and was killed)" % hard if killed
            else "solver process died without an answer"}


def _discharge(obl, timeout_ms=20000, use_cvc5=True, record=None, cheap_only=False):
    """Staged plan (iterative deepening): cheap attempts first.  The first `unsat` proves the
    obligation (a subset of the hypotheses suffices); `sat` on the full set refutes it.  A recorded
    proof hint (the hypotheses that sufficed last time) only selects a subset of the real
    hypotheses, so it cannot make anything provable that is not."""
    t0 = time.time()
    last = "unknown"
    h = hints().get(hint_key(obl))
    sub = None
    if h:
        want = set(h["core"])
        sub = [x for x in obl.hyps if fingerprint(x) in want]
    sl = slices(obl)
    D, M, S7, E = PORTFOLIO
    cheap = [D, E]                       # e-matching with and without model-based instantiation
    deep = [D, E, M]
    if h:
        first = [c for c in PORTFOLIO if c[0] == h.get("cfg")]
        cheap = first + [c for c in cheap if c not in first]
    plan = []
    if sub is not None:
        plan += [("hint-core", sub, c, cfg, 300) for c, cfg in cheap]
    for sname, hyps in sl:
        plan += [(sname, hyps, c, cfg, 250) for c, cfg in cheap]
    if not cheap_only:
        if sub is not None:
            plan += [("hint-core", sub, c, cfg, 2500) for c, cfg in deep]
        for sname, hyps in sl:
            plan += [(sname, hyps, c, cfg, timeout_ms // 5) for c, cfg in (deep + [S7] if sname == "all" else deep)]
    for sname, hyps, cname, cfg, budget in plan:
        verdict, info = _try(hyps, obl.goal, cfg, budget)
        if verdict == "unsat":
            if record is not None:
                core = core_of(obl, hyps, cfg, max(budget * 2, 1000))
                record[hint_key(obl)] = {"core": core if core is not None else sorted({fingerprint(x) for x in hyps}), "cfg": cname}
            return {"status": "proved", "backend": "%s/%s[%d of %d hyps] (z3 %s)" % (cname, sname, len(hyps), len(obl.hyps), z3.get_version_string()),
                    "seconds": time.time() - t0}
        if verdict == "sat" and sname == "all":
            return {"status": "refuted", "backend": "%s (z3 %s)" % (cname, z3.get_version_string()), "seconds": time.time() - t0}
        if verdict == "unknown":
            last = info
    if cheap_only:
        return {"status": "unknown", "backend": "z3 (cheap stage only)", "seconds": time.time() - t0,
                "reason": "not pursued: this function already has undischarged obligations in this run"}
    if use_cvc5:
        r = cvc5_check(smt2_of(obl), timeout_ms // 2)
        if r == "unsat":
            return {"status": "proved", "backend": "cvc5", "seconds": time.time() - t0}
        if r == "sat":
            return {"status": "refuted", "backend": "cvc5", "seconds": time.time() - t0}
    return {"status": "unknown", "backend": "z3 portfolio + cvc5", "seconds": time.time() - t0, "reason": str(last)}


def cvc5_check(smt2, timeout_ms):
    exe = "/usr/bin/cvc5"
    if not os.path.exists(exe):
        return "unknown"
    with tempfile.NamedTemporaryFile("w", suffix=".smt2", delete=False) as f:
        f.write("(set-logic ALL)\n" + smt2)
        path = f.name
    try:
        p = subprocess.run([exe, "--tlimit=%d" % timeout_ms, "--full-saturate-quant", path],
                           capture_output=True, text=True, timeout=timeout_ms / 1000 + 10)
        out = p.stdout.strip().splitlines()
        return out[0] if out else "unknown"
    except Exception:
        return "unknown"
    finally:
        os.unlink(path)
