"""Semantics of calls: contract vocabulary, Python builtins, container methods, numpy
primitives (assumed contracts — each is listed in TRUSTED and validated against the
installed library by pyvc/libcheck.py), modular calls of repository functions.
"""
import ast
from fractions import Fraction

import z3

from .values import (EngineError, Seq, DictV, SetV, Opaque, I, R, B, uid, is_z3, is_scalar, to_z3,
                     sort_of, as_int, as_real, as_bool, zand, zor, znot, zimp, zite, type_of, fresh,
                     fresh_seq, fresh_dict, fresh_set, parse_type, values_equal, key_terms, bvar, mentions_bound)
from .engine import (Builtin, BoundMethod, Closure, RepoFunction, ModuleRef, SpecFunction, MaybeNone, State)

PY_BUILTINS = {"len", "range", "zip", "enumerate", "int", "float", "bool", "str", "sorted", "set", "list",
               "dict", "tuple", "min", "max", "sum", "abs", "all", "any", "reversed", "next", "round",
               "isinstance", "print", "open", "iter"}
EXCEPTIONS = {"ValueError", "TypeError", "AssertionError", "NotImplementedError", "KeyError", "IndexError",
              "AttributeError", "Exception", "RuntimeError"}

CANON = {  # canonical dotted name -> handler suffix
    "numpy.array": "np_array", "numpy.asarray": "np_array", "numpy.zeros": "np_zeros", "numpy.empty": "np_empty",
    "numpy.concatenate": "np_concatenate", "numpy.isfinite": "np_isfinite", "numpy.diff": "np_diff",
    "numpy.cumsum": "np_cumsum", "numpy.nonzero": "np_nonzero", "numpy.minimum": "np_minimum",
    "numpy.maximum": "np_maximum", "numpy.ceil": "np_ceil", "numpy.floor": "np_floor", "numpy.mean": "np_mean", "numpy.all": "np_all",
    "numpy.alltrue": "np_missing", "numpy.NaN": "np_missing_attr", "numpy.int64": "dtype_int", "numpy.float64": "dtype_float",
    "numpy.argwhere": "np_argwhere", "numpy.allclose": "np_allclose", "numpy.isscalar": "np_isscalar",
    "numpy.interp": "np_interp", "numpy.issubdtype": "np_issubdtype", "numpy.integer": "dtype_int",
    "numpy.dot": "np_dot", "numpy.linalg.solve": "np_solve", "numpy.exp": "np_exp", "numpy.log": "np_log",
    "numpy.linspace": "np_linspace", "numpy.nan": "np_nan",
    "math.floor": "math_floor", "math.ceil": "math_ceil",
    "collections.defaultdict": "defaultdict",
}

TRUSTED = set()
CALLED = set()          # repository functions whose contract was used at a call site (modular reasoning)


def trusted(name):
    TRUSTED.add(name)


class Lib:
    def __init__(self, ctx):
        self.ctx = ctx

    # ------------------------------------------------------------------ dispatch
    def call(self, ex, node, st):
        f = node.func
        if isinstance(f, ast.Name) and f.id not in st.locals:
            sp = getattr(self, "sf_" + f.id, None)
            if sp is not None:
                return sp(ex, node, st)
        fv = ex.eval(f, st)
        args, kwargs = self.eval_args(ex, node, st, fv)
        return self.apply(ex, st, fv, args, kwargs, node)

    def eval_args(self, ex, node, st, fv):
        args = []
        for a in node.args:
            if isinstance(a, ast.Starred):
                v = ex.eval(a.value, st)
                args.append(_StarMark(v))
            else:
                args.append(ex.eval(a, st))
        kwargs = {}
        for k in node.keywords:
            if k.arg is None:
                raise EngineError("%s:L%d: **kwargs outside the subset" % (ex.fnname, node.lineno))
            kwargs[k.arg] = ex.eval(k.value, st)
        # expand starred arguments of concrete length
        out = []
        for a in args:
            if isinstance(a, _StarMark):
                v = a.value
                if isinstance(v, tuple):
                    out.extend(v)
                elif isinstance(v, Seq) and v.concrete_len():
                    out.extend(v.at(j) for j in range(v.n))
                else:
                    out.append(Star(v))
            else:
                out.append(a)
        return out, kwargs

    def apply(self, ex, st, fv, args, kwargs, node):
        if isinstance(fv, Builtin):
            h = getattr(self, "b_" + fv.name, None)
            if h is None:
                raise EngineError("%s:L%d: call of %s outside the subset" % (ex.fnname, node.lineno, fv.name))
            return h(ex, st, args, kwargs, node)
        if isinstance(fv, BoundMethod):
            return self.call_method(ex, st, fv, args, kwargs, node)
        if isinstance(fv, Closure):
            return self.call_closure(ex, st, fv, args, kwargs, node)
        if isinstance(fv, RepoFunction):
            return self.call_repo(ex, st, fv, args, kwargs, node)
        if isinstance(fv, SpecFunction):
            return self.call_spec(ex, st, fv, args, kwargs, node)
        if isinstance(fv, Opaque):
            return self.ctx.objects.call_opaque(ex, st, fv, args, kwargs, node)
        raise EngineError("%s:L%d: call of %r outside the subset" % (ex.fnname, node.lineno, fv))

    # ------------------------------------------------------------------ contract vocabulary
    def _quant(self, ex, node, st, universal):
        lo = as_int(ex.eval(node.args[0], st))
        hi = as_int(ex.eval(node.args[1], st))
        lam = node.args[2]
        if not isinstance(lam, ast.Lambda):
            raise EngineError("forall/exists need a lambda")
        vname = lam.args.args[0].arg
        if isinstance(lo, int) and isinstance(hi, int) and hi - lo <= 12:
            vals = []
            for k in range(lo, hi):
                s2 = st.fork()
                s2.locals[vname] = k
                vals.append(ex.truth(ex.eval(lam.body, s2)))
                _carry(st, s2)
            return zand(*vals) if universal else zor(*vals)
        v = bvar(vname)
        s2 = st.fork()
        s2.locals[vname] = v
        rng = zand(ex.cmp_le(lo, v), ex.cmp_lt(v, hi))
        tok = s2.push(rng)
        ex.binders += 1
        ex.bound_stack.append(v)
        try:
            body = ex.truth(ex.eval(lam.body, s2))
        finally:
            ex.binders -= 1
            ex.bound_stack.pop()
        s2.pop(tok)
        _carry(st, s2, drop=0)
        pats = []
        for k in node.keywords:
            if k.arg == "trigger":
                s3 = st.fork()
                s3.locals[vname] = v
                t = ex.eval(k.value.body if isinstance(k.value, ast.Lambda) else k.value, s3)
                pats = [to_z3(x) for x in (t if isinstance(t, tuple) else (t,))]
        if universal:
            vs, ante, bz = [v], [to_z3(rng)], to_z3(body)
            # flatten forall i. forall j. ... into one multi-variable quantifier (better triggers);
            # an explicit trigger on an inner quantifier is kept for the merged one
            while True:
                inner = bz
                extra = []
                if z3.is_implies(inner) and z3.is_quantifier(inner.arg(1)) and inner.arg(1).is_forall():
                    extra = [inner.arg(0)]
                    inner = inner.arg(1)
                if z3.is_quantifier(inner) and inner.is_forall() and (inner.num_patterns() == 0 or not pats):
                    n = inner.num_vars()
                    ivs = [bvar(inner.var_name(i)) for i in range(n)]
                    b2 = z3.substitute_vars(inner.body(), *reversed(ivs))
                    if inner.num_patterns() > 0:
                        p0 = z3.substitute_vars(inner.pattern(0), *reversed(ivs))
                        pats = list(p0.children())
                    vs += ivs
                    ante += extra
                    if z3.is_implies(b2):
                        ante.append(b2.arg(0))
                        bz = b2.arg(1)
                    else:
                        bz = b2
                    continue
                break
            bodyz = z3.Implies(z3.And(*ante) if len(ante) > 1 else ante[0], bz)
            if pats and not all(_valid_pattern(p) for p in pats):
                pats = []
            if pats:
                return z3.ForAll(vs, bodyz, patterns=[z3.MultiPattern(*pats)] if len(pats) > 1 else pats)
            return z3.ForAll(vs, bodyz)
        bodyz = z3.And(to_z3(rng), to_z3(body))
        return z3.Exists([v], bodyz)

    def _quant_int(self, ex, node, st, universal):
        lam = node.args[0]
        names = [a.arg for a in lam.args.args]
        vs = [bvar(n) for n in names]
        s2 = st.fork()
        for n, v in zip(names, vs):
            s2.locals[n] = v
        body = lam.body
        ex.binders += 1
        ex.bound_stack.extend(vs)
        try:
            bz = to_z3(ex.truth(ex.eval(body, s2)))
        finally:
            ex.binders -= 1
            del ex.bound_stack[-len(vs):]
        _carry(st, s2)
        return z3.ForAll(vs, bz) if universal else z3.Exists(vs, bz)

    def sf_forall_int(self, ex, node, st):
        return self._quant_int(ex, node, st, True)

    def sf_exists_int(self, ex, node, st):
        return self._quant_int(ex, node, st, False)

    def sf_forall(self, ex, node, st):
        return self._quant(ex, node, st, True)

    def sf_exists(self, ex, node, st):
        return self._quant(ex, node, st, False)

    def sf_implies(self, ex, node, st):
        a = ex.truth(ex.eval(node.args[0], st))
        if a is False:
            return True
        tok = st.push(a)
        try:
            b = ex.truth(ex.eval(node.args[1], st))
        finally:
            st.pop(tok)
        return zimp(a, b)

    def sf_iff(self, ex, node, st):
        a = ex.truth(ex.eval(node.args[0], st))
        b = ex.truth(ex.eval(node.args[1], st))
        return values_equal(a, b)

    def sf_prefix_sums(self, ex, node, st):
        """prefix_sums(seq)[i] = seq[0] + ... + seq[i]  (defining recurrence as axioms)."""
        seq = ex.as_seq(ex.eval(node.args[0], st), st)
        c = self.partial_sums(ex, st, seq)
        return Seq(seq.n, lambda i: c(to_z3(i)), "array")

    def sf_uf_real(self, ex, node, st):
        """uf_real("name", a, b, ...): an uninterpreted real-valued function (shared by name with the
        library models: 'splev', 'splint_F', ...).  The first argument after the name is an integer
        identity when the library model uses one."""
        name = ex.eval(node.args[0], st)
        vals = [ex.eval(a, st) for a in node.args[1:]]
        sorts, terms = [], []
        for v in vals:
            if sort_of(v) == "int":
                sorts.append(I)
                terms.append(to_z3(v))
            else:
                sorts.append(R)
                terms.append(to_z3(as_real(v)))
        return self.ctx.uf(name, *(sorts + [R]))(*terms)

    def sf_antiderivative_of(self, ex, node, st):
        from .objects import antiderivative_of
        return antiderivative_of(self.ctx, ex.eval(node.args[0], st))

    def sf_forall_real(self, ex, node, st):
        lam = node.args[0]
        names = [a.arg for a in lam.args.args]
        vs = [z3.Real(uid(n)) for n in names]
        from .values import BOUND
        for v in vs:
            BOUND.add(v.decl().name())
        s2 = st.fork()
        for n, v in zip(names, vs):
            s2.locals[n] = v
        ex.binders += 1
        ex.bound_stack.extend(vs)
        try:
            bz = to_z3(ex.truth(ex.eval(lam.body, s2)))
        finally:
            ex.binders -= 1
            del ex.bound_stack[-len(vs):]
        _carry(st, s2)
        return z3.ForAll(vs, bz)

    def sf_uf_int(self, ex, node, st):
        """uf_int("name", a, ...): an uninterpreted integer-valued function of integer arguments."""
        name = ex.eval(node.args[0], st)
        vals = []
        for a in node.args[1:]:
            v = ex.eval(a, st)
            if sort_of(v) == "real":      # an integral float (e.g. an epoch read into a float64 array)
                v = z3.ToInt(to_z3(v)) if is_z3(v) else int(v)
            vals.append(to_z3(as_int(v)))
        return self.ctx.uf(name, *([I] * len(vals) + [I]))(*vals)

    def sf_is_integer(self, ex, node, st):
        v = as_real(ex.eval(node.args[0], st))
        if is_z3(v):
            return z3.IsInt(v)
        return Fraction(v).denominator == 1

    def sf_close(self, ex, node, st):
        """Equality of reals (SMT reading); equality up to rounding in the native reading."""
        return values_equal(as_real(ex.eval(node.args[0], st)), as_real(ex.eval(node.args[1], st)))

    def sf_ceil_int(self, ex, node, st):
        return self.b_math_ceil(ex, st, [ex.eval(node.args[0], st)], {}, node)

    def sf_floor_int(self, ex, node, st):
        return self.b_math_floor(ex, st, [ex.eval(node.args[0], st)], {}, node)

    def sf_prefix_sums_2d(self, ex, node, st):
        """prefix_sums_2d(lambda i, j: term, n, m) -> P with P(i, j) = term(i,0) + ... + term(i,j)
        (defining recurrence as axioms); callable as P(i, j)."""
        lam = node.args[0]
        n = to_z3(as_int(ex.eval(node.args[1], st)))
        m = to_z3(as_int(ex.eval(node.args[2], st)))
        ni, nj = [a.arg for a in lam.args.args]
        i, j = bvar(ni), bvar(nj)
        s2 = st.fork()
        s2.locals[ni], s2.locals[nj] = i, j
        saved = ex.checking
        ex.checking = False
        ex.binders += 1
        ex.bound_stack.extend([i, j])
        try:
            t = to_z3(as_real(ex.eval(lam.body, s2)))
        finally:
            ex.checking = saved
            ex.binders -= 1
            del ex.bound_stack[-2:]
        _carry(st, s2)
        P = z3.Function(uid("psum2"), I, I, R)
        t0 = z3.substitute(t, (j, z3.IntVal(0)))
        st.pc.append(z3.ForAll([i], z3.Implies(z3.And(i >= 0, i < n, m >= 1), P(i, 0) == t0), patterns=[P(i, 0)]))
        st.pc.append(z3.ForAll([i, j], z3.Implies(z3.And(i >= 0, i < n, j >= 1, j < m), P(i, j) == P(i, j - 1) + t),
                               patterns=[P(i, j)]))
        return Opaque("fn2", uf=P)

    def sf_db_sealed(self, ex, node, st):
        return self.ctx.objects.db(ex, st).get("sealed")

    def sf_db_was_sealed(self, ex, node, st):
        d = st.ghost.get("__db_old__") or ex.entry.ghost.get("__db__")
        return d.get("sealed")

    def sf_db_rows(self, ex, node, st):
        name = ex.eval(node.args[0], st)
        t = self.ctx.objects.db(ex, st).get("tables").get(name)
        if t is None:
            return Seq.of([], "list")
        return t

    def sf_db_rows_before(self, ex, node, st):
        name = ex.eval(node.args[0], st)
        d = st.ghost.get("__db_old__") or ex.entry.ghost.get("__db__")
        return d.get("tables")[name]

    def sf_loop_it(self, ex, node, st):
        k = ex.eval(node.args[0], st)
        v = st.locals.get("__it%d__" % k)
        if v is None:
            raise EngineError("loop_it(%d) used outside that loop" % k)
        return v

    def sf_loop_seq(self, ex, node, st):
        """loop_seq(k): the sequence the k-th loop of the function iterates over (e.g. the list a generator call yields),
        available inside that loop and after it."""
        k = ex.eval(node.args[0], st)
        v = st.locals.get("__seq%d__" % k)
        if v is None:
            raise EngineError("loop_seq(%d) used before that loop" % k)
        return v

    def sf_dict_put(self, ex, node, st):
        """dict_put(d, k, v): the dictionary d with d[k] = v (pure; for ghost maps: let g = dict_put(g, k, v))."""
        d = ex.eval(node.args[0], st)
        k = ex.eval(node.args[1], st)
        v = ex.eval(node.args[2], st)
        if not isinstance(d, DictV):
            raise EngineError("dict_put of something that is not a dictionary")
        return ex.dict_store(d, k, v)

    def sf_seq_mean(self, ex, node, st):
        """Arithmetic mean of a numeric sequence (same partial-sum function as numpy's mean on that object)."""
        s = ex.as_seq(ex.eval(node.args[0], st), st)
        saved = ex.checking
        ex.checking = False
        try:
            return self.mean_of(ex, st, s, node)
        finally:
            ex.checking = saved

    def sf_cut(self, ex, node, st):
        """Ghost assertion: proved here (obligation), then available as a hypothesis."""
        saved = ex.checking
        ex.checking = False
        try:
            g = ex.truth(ex.eval(node.args[0], st))
        finally:
            ex.checking = saved
        ex.oblige_and_assume(st, g, "ghost-cut", node, ast.unparse(node.args[0])[:160])
        return True

    def sf_old(self, ex, node, st):
        name = node.args[0].id
        old = st.locals.get("__old__")
        if old is None and hasattr(ex, "entry"):
            old = ex.entry.locals        # ghost statements and loop measures are evaluated in the running state
        if old is None or name not in old:
            raise EngineError("old(%s) has no entry value" % name)
        return old[name]

    def call_spec(self, ex, st, sp, args, kwargs, node):
        fn = sp.node
        params = [a.arg for a in fn.args.args]
        if sp.kind == "lemma":
            return self.ctx.apply_lemma(ex, st, sp, args, node)
        body = [s for s in fn.body if not (isinstance(s, ast.Expr) and isinstance(s.value, ast.Constant))]
        if len(body) != 1 or not isinstance(body[0], ast.Return):
            raise EngineError("@spec %s must be a single return expression" % sp.name)
        s2 = State()
        s2.locals = dict(zip(params, args))
        s2.locals["__old__"] = st.locals.get("__old__")
        s2.pc = st.pc
        saved = ex.checking
        ex.checking = False
        try:
            return ex.eval(body[0].value, s2)
        finally:
            ex.checking = saved

    # ------------------------------------------------------------------ closures
    def call_closure(self, ex, st, clo, args, kwargs, node):
        fn = clo.node
        params = [a.arg for a in fn.args.args]
        bind = {k: v for k, v in getattr(clo, "env", {}).items() if k not in st.locals}
        bind.update(clo.defaults)
        for p, a in zip(params, args):
            if isinstance(a, Opaque) and a.kind == "csvreader":
                a = a.get("rows")           # an iterator over the remaining rows is passed where a sequence of rows is expected
            bind[p] = a
        bind.update(kwargs)
        if isinstance(fn, ast.Lambda):
            body_expr = fn.body
        else:
            body = [s for s in fn.body if not (isinstance(s, ast.Expr) and isinstance(s.value, ast.Constant))]
            if len(body) != 1 or not isinstance(body[0], ast.Return):
                raise EngineError("%s: nested function %s is not a single return expression" % (ex.fnname, fn.name))
            body_expr = body[0].value
        missing = [p for p in params if p not in bind]
        if missing:
            raise EngineError("closure call misses arguments %s" % missing)
        saved = {p: st.locals.get(p, _MISSING) for p in bind}
        st.locals.update(bind)
        try:
            return ex.eval(body_expr, st)
        finally:
            for p, v in saved.items():
                if v is _MISSING:
                    st.locals.pop(p, None)
                else:
                    st.locals[p] = v

    # ------------------------------------------------------------------ modular call of a repository function
    def call_repo(self, ex, st, rf, args, kwargs, node):
        c = self.ctx.registry.contracts.get(rf.qualname)
        if c is None:
            raise EngineError("%s:L%d: callee %s has no contract" % (ex.fnname, node.lineno, rf.qualname))
        CALLED.add(rf.qualname)
        if any(isinstance(a, Opaque) and a.kind == "yamldoc" for a in list(args) + list(kwargs.values())):
            st.ghost["__yamlver__"] = st.ghost.get("__yamlver__", 0) + 1     # the callee may change the document
        mod = self.ctx.module(rf.module)
        fnode, cls = mod.functions[(rf.cls + "." if rf.cls else "") + rf.name]
        params = [a.arg for a in fnode.args.args]
        bind = {}
        is_classmethod = bool(cls and params and params[0] == "cls")
        if is_classmethod:
            params = params[1:]
        elif cls and params and params[0] == "self":
            params = params[1:]
            if rf.receiver is not None:
                bind["self"] = rf.receiver
        ndef = len(fnode.args.defaults)
        for a, d in zip(fnode.args.args[len(fnode.args.args) - ndef:], fnode.args.defaults):
            try:
                dv = ast.literal_eval(d)
                bind[a.arg] = Fraction(repr(dv)) if isinstance(dv, float) else dv
            except Exception:
                pass
        for p, a in zip(params, args):
            if isinstance(a, Opaque) and a.kind == "csvreader":
                a = a.get("rows")           # an iterator over the remaining rows is passed where a sequence of rows is expected
            bind[p] = a
        for k, v in kwargs.items():
            if k not in params:
                raise EngineError("%s:L%d: unexpected keyword %r for %s" % (ex.fnname, node.lineno, k, rf.qualname))
            bind[k] = v
        missing = [p for p in params if p not in bind]
        if missing:
            raise EngineError("%s:L%d: call of %s misses %s" % (ex.fnname, node.lineno, rf.qualname, missing))
        if cls and not is_classmethod and "self" not in bind:
            raise EngineError("%s:L%d: method %s called without a receiver" % (ex.fnname, node.lineno, rf.qualname))
        fr = State()
        fr.locals = dict(bind)
        fr.locals["__old__"] = dict(bind)
        fr.pc = st.pc          # shared: assumptions made while evaluating contract text persist
        fr.ghost = st.ghost
        saved = ex.checking

        def ev(e):
            ex.checking = False
            try:
                return ex.truth(ex.eval(e, fr))
            finally:
                ex.checking = saved

        short = rf.qualname.split(":")[1]
        for k, rq in enumerate(c.requires):
            for j, g in enumerate(_conjuncts(rq)):
                ex.oblige(st, ev(g), "call-pre[%s.%d.%d]" % (short, k, j), node, ast.unparse(g)[:160])
        for r in c.raises:
            w = ev(r["when"])
            if w is False:
                continue
            st.pending.append((list(st.pc), w, r["exc"]))
            st.assume(znot(w))
        for exc in getattr(c, "may_raise", []):
            # the callee may raise: an unconstrained choice
            w = z3.Bool(uid("raises_" + exc))
            st.pending.append((list(st.pc), w, exc))
            st.assume(z3.Not(w))
        facts = []
        result = None
        vec = [p for p in c.options.get("vectorized", []) if isinstance(bind.get(p), Seq)]
        if vec:
            return self._call_vectorized(ex, st, rf, c, bind, vec, node, short)
        bvs = list(ex.bound_stack)
        if bvs and c.returns in ("real", "int", "bool"):
            # called under quantifier-bound variables: the result is a function of them, and the
            # callee's postcondition is assumed for all their values
            from .values import _SORT
            F = z3.Function(uid(short.replace(".", "_") + "_resf"), *([v.sort() for v in bvs] + [_SORT[c.returns]]))
            result = F(*bvs)
        elif bvs and c.returns and c.returns != "none":
            raise EngineError("%s:L%d: call of %s under a bound variable with a non-scalar result" % (ex.fnname, node.lineno, rf.qualname))
        elif c.returns and c.returns.startswith("obj["):
            target = c.returns[4:-1]
            result = c.make_self(ex, st, facts, c.registry.class_fields(target), target, short.replace(".", "_") + "_res")
        elif c.returns and c.returns != "none":
            result = fresh(parse_type(c.returns), short.replace(".", "_") + "_res", (), facts)
        for f in facts:
            if not isinstance(f, tuple):
                st.assume(f)
        # frame: modified parameters get fresh values, written back to the caller's variable
        argnodes = list(node.args) + [k.value for k in node.keywords]
        argnames = params[:len(node.args)] + [k.arg for k in node.keywords]
        for mname in c.modifies:
            if mname == "__db__":
                old_db = st.ghost.get("__db__")
                st.ghost = dict(st.ghost)
                st.ghost["__db_old__"] = old_db
                st.ghost["__db__"] = self.ctx.havoc_db(ex, st, old_db)
                fr.ghost = st.ghost
                continue
            if mname not in bind:
                continue
            facts = []
            nv = fresh(type_of(bind[mname]), mname, (), facts)
            for f in facts:
                if not isinstance(f, tuple):
                    st.assume(f)
            fr.locals[mname] = nv
            for an, anode in zip(argnames, argnodes):
                if an == mname:
                    if isinstance(anode, ast.Name):
                        ex.assign(anode, nv, st)
                        ex.note_mutation(anode.id, st)
                    else:
                        raise EngineError("%s:L%d: mutated argument is not a plain variable" % (ex.fnname, node.lineno))
        fr.locals["result"] = result
        for gname, gty in getattr(c, "ghost_results", {}).items():
            facts = []
            fr.locals[gname] = fresh(parse_type(gty), gname, (), facts)
            for f in facts:
                if not isinstance(f, tuple):
                    st.assume(f)
            if gname in getattr(ex.contract, "ghost_results", {}):
                st.locals[gname] = fr.locals[gname]     # the caller re-exports the callee's ghost result
        for e in c.ensures:
            fact = ev(e)
            if bvs:
                if fact is True:
                    continue
                st.pc.append(z3.ForAll(bvs, to_z3(zimp(zand(*[t for t in st.temps]), fact))))
            else:
                st.assume(fact)
        # further verified contracts of the same function (variants marked also_at_call_sites): a call site may rely on
        # each of them once its preconditions hold there (they become obligations)
        if not bvs:
            for vname, vc in sorted(self.ctx.registry.contracts.items()):
                if vname.startswith(rf.qualname + "#") and vc.options.get("also_at_call_sites") and not getattr(vc, "ghost_results", None):
                    CALLED.add(vname)
                    vshort = short + "#" + vname.split("#", 1)[1]
                    for k, rq in enumerate(vc.requires):
                        for j, g in enumerate(_conjuncts(rq)):
                            ex.oblige(st, ev(g), "call-pre[%s.%d.%d]" % (vshort, k, j), node, ast.unparse(g)[:160])
                    for e in vc.ensures:
                        st.assume(ev(e))
        return result

    def _call_vectorized(self, ex, st, rf, c, bind, vec, node, short):
        """A contract stated for a scalar argument, applied to an array element by element (the
        function is a composition of numpy ufuncs): result[i] satisfies the postcondition for x[i]."""
        from .values import _SORT
        n = bind[vec[0]].n
        j = bvar("v")
        F = z3.Function(uid(short.replace(".", "_") + "_vec"), I, _SORT[c.returns])
        fr = State()
        fr.locals = dict(bind)
        for p in vec:
            fr.locals[p] = bind[p].at(j)
        fr.locals["__old__"] = dict(fr.locals)
        fr.locals["result"] = F(j)
        fr.pc = st.pc
        saved = ex.checking
        ex.checking = False
        ex.binders += 1
        ex.bound_stack.append(j)
        try:
            pres = [ex.truth(ex.eval(rq, fr)) for rq in c.requires]
            posts = [ex.truth(ex.eval(e, fr)) for e in c.ensures]
        finally:
            ex.checking = saved
            ex.binders -= 1
            ex.bound_stack.pop()
        rng = z3.And(j >= 0, j < to_z3(n))
        for k, g in enumerate(pres):
            if g is True:
                continue
            ex.oblige(st, z3.ForAll([j], z3.Implies(rng, to_z3(g))), "call-pre[%s.%d]" % (short, k), node)
        for g in posts:
            if g is True:
                continue
            st.assume(z3.ForAll([j], z3.Implies(rng, to_z3(g)), patterns=[F(j)]))
        return Seq(n, lambda i: F(to_z3(as_int(i))), "array")

    # ------------------------------------------------------------------ attribute access
    def getattr(self, ex, st, obj, attr, node):
        if isinstance(obj, ModuleRef):
            g = self.ctx.resolve_dotted(ex.module, obj.name + "." + attr, canonical=True)
            if g is None:
                raise EngineError("%s:L%d: %s.%s outside the subset" % (ex.fnname, node.lineno, obj.name, attr))
            return g
        if isinstance(obj, Seq):
            if attr == "shape":
                if isinstance(obj.ety(), tuple) and obj.ety()[0].startswith("seq:"):
                    return (obj.n, obj.at(0).n)
                return (obj.n,)
            if attr == "dtype":
                return Opaque("dtype", name=obj.ety())
            if attr == "size":
                return obj.n
        if isinstance(obj, Opaque):
            if attr in obj.fields:
                return obj.fields[attr]
            if obj.kind == "self":
                rf = self.ctx.method_of(ex, attr, obj)
                if rf is not None:
                    return rf
                raise EngineError("%s:L%d: attribute self.%s unknown to the contract" % (ex.fnname, node.lineno, attr))
        return BoundMethod(obj, attr, node.value)

    def opaque_eq(self, ex, st, a, b):
        def dt(x):
            if isinstance(x, Opaque) and x.kind == "dtype":
                return x.get("name")
            if isinstance(x, Builtin) and x.name in ("bool", "dtype_int", "dtype_float", "int", "float"):
                return {"bool": "bool", "dtype_int": "int", "int": "int", "dtype_float": "real", "float": "real"}[x.name]
            return None
        da, db = dt(a), dt(b)
        if da is not None and db is not None:
            return da == db
        if any(isinstance(x, Opaque) and x.kind == "yamldoc" for x in (a, b)):
            # a YAML scalar compared with something: may go either way -- but the same entry of the same document, read in
            # the same state of the document and compared with the same constant, goes the same way every time
            for x, y in ((a, b), (b, a)):
                if isinstance(x, Opaque) and x.kind == "yamldoc" and x.get("path") is not None \
                        and isinstance(y, (str, int, bool)) and not is_z3(y):
                    return z3.Bool("yamltest|%s|v%d|%r" % ("/".join(x.get("path")), x.get("ver", 0), y))
            return z3.Bool(uid("yamltest"))
        raise EngineError("equality on %r / %r outside the subset" % (a, b))

    def index_opaque(self, ex, st, base, node):
        return self.ctx.objects.index_opaque(ex, st, base, node)

    def index2d(self, ex, st, base, idx, node):
        # a[:, 0] and a[r, c]
        sl = node.slice
        if isinstance(sl, ast.Tuple) and len(sl.elts) == 2:
            r_node, c_node = sl.elts
            if isinstance(r_node, ast.Slice) and r_node.lower is None and r_node.upper is None:
                c = ex.eval(c_node, st)
                return Seq(base.n, lambda i: ex.load_elem(base.at(i), c, st, node), "array")
            if not isinstance(r_node, ast.Slice) and not isinstance(c_node, ast.Slice) \
                    and isinstance(base.ety(), tuple) and base.ety()[0].startswith("seq:"):
                # a[r, c] on a 2-D array
                r, c = idx
                if is_scalar(r) and is_scalar(c):
                    r = ex.norm_index(r, base.n, st, node)
                    row = base.at(r)
                    c = ex.norm_index(c, row.n, st, node)
                    return row.at(c)
        raise EngineError("%s:L%d: 2-D indexing outside the subset" % (ex.fnname, node.lineno))

    def exec_with(self, ex, node, st):
        return self.ctx.objects.exec_with(ex, node, st)

    def power(self, ex, st, a, b, node):
        trusted("pow: uninterpreted real function (monotonicity not assumed)")
        f = self.ctx.uf("pow", R, R, R)
        return f(to_z3(as_real(a)), to_z3(as_real(b)))

    # ------------------------------------------------------------------ methods on values
    def call_method(self, ex, st, bm, args, kwargs, node):
        obj, name = bm.obj, bm.name
        if isinstance(obj, MaybeNone):
            st.pending.append((list(st.pc), znot(obj.present), "AttributeError"))
            st.assume(obj.present)
            obj = obj.value
        if isinstance(obj, str):
            return self.str_method(ex, st, obj, name, args, kwargs, node)
        if isinstance(obj, SetDefaultRef):
            # d.setdefault(k, []).append(x): the list stored under k grows by x
            if name != "append" or len(args) != 1:
                raise EngineError("%s:L%d: only .append(x) is supported on the result of setdefault" % (ex.fnname, node.lineno))
            d = ex.eval(obj.bm.base_node, st)
            newd = ex.dict_store(d, obj.key, ex.seq_append(ex.as_seq(d.val(obj.key), st), args[0]))
            self.writeback(ex, st, obj.bm, newd)
            return None
        if isinstance(obj, tuple):
            obj = Seq.of(list(obj), "tuple")
        if isinstance(obj, Seq):
            h = getattr(self, "seq_" + name, None)
            if h is None:
                ex.oblige(st, False, "method-defined", node, "%s has no method %s" % (obj.kind, name))
                st.assume(False)
                return None
            return h(ex, st, obj, bm, args, kwargs, node)
        if isinstance(obj, DictV):
            h = getattr(self, "dict_" + name, None)
            if h is None:
                ex.oblige(st, False, "method-defined", node, "dict has no method %s" % name)
                st.assume(False)
                return None
            return h(ex, st, obj, bm, args, kwargs, node)
        if isinstance(obj, SetV):
            h = getattr(self, "set_" + name, None)
            if h is None:
                ex.oblige(st, False, "method-defined", node, "set has no method %s" % name)
                st.assume(False)
                return None
            return h(ex, st, obj, bm, args, kwargs, node)
        if isinstance(obj, Opaque):
            return self.ctx.objects.call_method(ex, st, obj, bm, args, kwargs, node)
        if is_scalar(obj):
            if name == "is_integer":
                x = as_real(obj)
                if is_z3(x):
                    return z3.IsInt(x)
                return Fraction(x).denominator == 1
            if name in ("mean", "min", "max", "item"):
                return obj
            if name in ("any", "all"):      # 0-d numpy values
                return ex.truth(obj)
        raise EngineError("%s:L%d: method %s on %r outside the subset" % (ex.fnname, node.lineno, name, obj))

    def str_method(self, ex, st, s, name, args, kwargs, node):
        if name == "format":
            return "<formatted>"
        if name == "lower":
            return s.lower()
        if name == "startswith":
            return s.startswith(args[0]) if isinstance(args[0], str) else EngineError
        if name in ("ljust", "rjust", "strip"):
            return "<formatted>"
        if name == "join":
            return "<formatted>"
        raise EngineError("str.%s outside the subset" % name)

    # --- sequence methods
    def writeback(self, ex, st, bm, newval):
        ex.assign(_as_store(bm.base_node), newval, st)
        b = bm.base_node
        while isinstance(b, (ast.Subscript, ast.Attribute)):
            b = b.value
        if isinstance(b, ast.Name):
            ex.note_mutation(b.id, st)

    def seq_append(self, ex, st, s, bm, args, kwargs, node):
        if s.kind == "array":
            ex.oblige(st, False, "method-defined", node, "ndarray has no append")
        self.writeback(ex, st, bm, ex.seq_append(s, args[0]))
        return None

    def seq_pop(self, ex, st, s, bm, args, kwargs, node):
        if args:
            i = as_int(args[0])
            if not (isinstance(i, int) and i == 0):
                raise EngineError("list.pop(i) for i != 0 outside the subset")
            ex.oblige(st, ex.cmp_ge(s.n, 1), "pop-nonempty", node)
            v = s.at(0)
            self.writeback(ex, st, bm, Seq(s.n - 1, lambda k, s=s: s.at(k + 1), s.kind))
            return v
        ex.oblige(st, ex.cmp_ge(s.n, 1), "pop-nonempty", node)
        v = s.at(s.n - 1)
        if s.concrete_len() and s.items is not None:
            self.writeback(ex, st, bm, Seq.of(s.items[:-1], s.kind))
        else:
            self.writeback(ex, st, bm, Seq(s.n - 1, s._at, s.kind))
        return v

    def seq_all(self, ex, st, s, bm, args, kwargs, node):
        return self.all_of(ex, st, s)

    def seq_any(self, ex, st, s, bm, args, kwargs, node):
        return self.any_of(ex, st, s)

    def all_of(self, ex, st, s):
        if s.concrete_len() and s.n <= 16:
            return zand(*[ex.truth(s.at(k)) for k in range(s.n)])
        j = bvar("a")
        ex.binders += 1
        try:
            return z3.ForAll([j], z3.Implies(z3.And(j >= 0, j < to_z3(s.n)), to_z3(ex.truth(s.at(j)))))
        finally:
            ex.binders -= 1

    def any_of(self, ex, st, s):
        if s.concrete_len() and s.n <= 16:
            return zor(*[ex.truth(s.at(k)) for k in range(s.n)])
        j = bvar("a")
        ex.binders += 1
        try:
            return z3.Exists([j], z3.And(j >= 0, j < to_z3(s.n), to_z3(ex.truth(s.at(j)))))
        finally:
            ex.binders -= 1

    def seq_astype(self, ex, st, s, bm, args, kwargs, node):
        return self.convert_seq(ex, s, args[0])

    def convert_seq(self, ex, s, dtype):
        kind = _dtype_kind(dtype)
        conv = {"bool": as_bool, "int": _to_int_dtype, "real": as_real}[kind]
        if isinstance(s.ety(), tuple) and s.ety()[0].startswith("seq:"):
            return Seq(s.n, lambda i: self.convert_seq(ex, s.at(i), dtype), "array")
        return Seq(s.n, lambda i: conv(s.at(i)), "array")

    def seq_tolist(self, ex, st, s, bm, args, kwargs, node):
        return s.with_kind("list")

    def seq_copy(self, ex, st, s, bm, args, kwargs, node):
        return s

    def seq_min(self, ex, st, s, bm, args, kwargs, node):
        return self.extremum(ex, st, s, node, lower=True)

    def seq_max(self, ex, st, s, bm, args, kwargs, node):
        return self.extremum(ex, st, s, node, lower=False)

    def extremum(self, ex, st, s, node, lower, key=None):
        ex.oblige(st, ex.cmp_ge(s.n, 1), "nonempty-%s" % ("min" if lower else "max"), node)
        key = key or (lambda x: x)
        if s.concrete_len() and s.n <= 8:
            r = s.at(0)
            for k in range(1, s.n):
                x = s.at(k)
                c = ex.cmp_lt(key(x), key(r)) if lower else ex.cmp_gt(key(x), key(r))
                r = zite(c, x, r)
            return r
        w = z3.Int(uid("argext"))
        st.assume(w >= 0, ex.cmp_lt(w, s.n))
        j = bvar("j")
        m = s.at(w)
        cmpf = ex.cmp_le if lower else ex.cmp_ge
        st.assume(z3.ForAll([j], z3.Implies(z3.And(j >= 0, j < to_z3(s.n)), to_z3(cmpf(key(m), key(s.at(j)))))))
        return m

    def seq_mean(self, ex, st, s, bm, args, kwargs, node):
        return self.mean_of(ex, st, s, node)

    def mean_of(self, ex, st, s, node):
        ex.oblige(st, ex.cmp_ge(s.n, 1), "nonempty-mean", node)
        tot = self.sum_of(ex, st, s)
        return ex.scalar_binop(ast.Div(), as_real(tot), as_real(s.n), st, node)

    def seq_sum(self, ex, st, s, bm, args, kwargs, node):
        return self.sum_of(ex, st, s)

    def sum_of(self, ex, st, s):
        """Sum of a numeric sequence: concrete unrolling, else partial-sum function with its
        defining recurrence (the same idiom as cumsum)."""
        if s.concrete_len() and s.n <= 16:
            r = 0
            for k in range(s.n):
                r = ex.scalar_binop(ast.Add(), r, s.at(k), st, None)
            return r
        ps = self.partial_sums(ex, st, s)
        zero = 0 if s.ety() != "real" else Fraction(0)
        return zite(ex.cmp_eq(s.n, 0), zero, ps(to_z3(s.n) - 1))

    def partial_sums(self, ex, st, s):
        # the same sequence object always gets the same partial-sum function
        memo = self.ctx.__dict__.setdefault("_psum_memo", {})
        if id(s) in memo and memo[id(s)][0] is s:
            return memo[id(s)][1]
        # two sequences with the same length term and the same element term at a symbolic position are the same
        # sequence, hence have the same partial sums (the key is the printed term with the probe variable fixed)
        skey = None
        if not ex.bound_stack and not s.concrete_len():
            try:
                probe = z3.Int("psum!probe")
                e = s.at(probe)
                if is_z3(e) or isinstance(e, (int, Fraction)):
                    skey = ("struct", z3.simplify(to_z3(s.n)).sexpr(), z3.simplify(to_z3(e)).sexpr() if is_z3(e) else repr(e),
                            s.ety() == "real")
            except EngineError:
                skey = None
        if skey is not None and skey in memo:
            # same sequence: same function; its defining recurrence is (re)stated in this state
            c = self._partial_sums(ex, st, s, memo[skey][1])
            memo[id(s)] = (s, c)
            return c
        c = self._partial_sums(ex, st, s)
        memo[id(s)] = (s, c)
        if skey is not None:
            memo[skey] = (s, c)
        return c

    def _partial_sums(self, ex, st, s, c=None):
        real = s.ety() == "real"
        if c is None:
            c = z3.Function(uid("psum"), I, R if real else I)
        conv = as_real if real else as_int
        n = to_z3(s.n)
        k = bvar("k")
        st.assume(z3.Implies(n >= 1, c(0) == to_z3(conv(s.at(0)))))
        st.assume(z3.ForAll([k], z3.Implies(z3.And(k >= 1, k < n), c(k) == c(k - 1) + to_z3(conv(s.at(k)))), patterns=[c(k)]))
        return c

    def seq_index(self, ex, st, s, bm, args, kwargs, node):
        x = args[0]
        bvs = list(ex.bound_stack)
        if bvs:
            # under bound variables: the position is a function of them; the element is assumed present
            # (list.index raising ValueError under a comprehension is reported through the probe evaluation)
            wf = z3.Function(uid("idx"), *([v.sort() for v in bvs] + [I]))
            w = wf(*bvs)
            mem = ex.contains(s, x, st, node)
            st.pc.append(z3.ForAll(bvs, z3.Implies(to_z3(zand(*st.temps, mem)),
                                                   z3.And(w >= 0, to_z3(ex.cmp_lt(w, s.n)), to_z3(values_equal(s.at(w), x))))))
            return w
        w = z3.Int(uid("idx"))
        mem = ex.contains(s, x, st, node)
        st.pending.append((list(st.pc), znot(mem), "ValueError"))
        st.assume(mem)
        st.assume(w >= 0, ex.cmp_lt(w, s.n), values_equal(s.at(w), x))
        j = bvar("j")
        st.assume(z3.ForAll([j], z3.Implies(z3.And(j >= 0, j < w), z3.Not(to_z3(values_equal(s.at(j), x))))))
        return w

    def seq_transpose(self, ex, st, s, bm, args, kwargs, node):
        return Opaque("transposed", of=s)

    def seq_items(self, ex, st, s, bm, args, kwargs, node):
        ex.oblige(st, False, "method-defined", node)
        return None

    # --- dict methods
    def dict_items(self, ex, st, d, bm, args, kwargs, node):
        ks = ex.dict_keys(d, st)
        return Seq(ks.n, lambda i, d=d, ks=ks: (ks.at(i), d.val(ks.at(i))), "list")

    def dict_keys(self, ex, st, d, bm, args, kwargs, node):
        return ex.dict_keys(d, st)

    def dict_values(self, ex, st, d, bm, args, kwargs, node):
        ks = ex.dict_keys(d, st)
        return Seq(ks.n, lambda i, d=d, ks=ks: d.val(ks.at(i)), "list")

    def dict_setdefault(self, ex, st, d, bm, args, kwargs, node):
        key, default = args[0], args[1]
        had = d.dom(key)
        newd = ex.dict_store(d, key, zite(had, d.val(key), default) if d.vty != "any" else default)
        self.writeback(ex, st, bm, newd)
        # the returned list is the stored one: mutations through it are written back by the caller idiom
        return SetDefaultRef(bm, key, newd.val(key))

    def dict_get(self, ex, st, d, bm, args, kwargs, node):
        key = args[0]
        default = args[1] if len(args) > 1 else None
        return zite(d.dom(key), d.val(key), default)

    def dict_pop(self, ex, st, d, bm, args, kwargs, node):
        key = args[0]
        if len(args) > 1:
            raise EngineError("dict.pop with default is handled by the caller's idiom only")
        ex.oblige(st, d.dom(key), "key-present", node)
        v = d.val(key)
        self.writeback(ex, st, bm, ex.dict_delete(d, key))
        return v

    # --- set methods
    def set_pop(self, ex, st, s, bm, args, kwargs, node):
        ex.oblige(st, ex.cmp_ge(s.size, 1), "pop-nonempty", node)
        x = fresh(s.kty if isinstance(s.kty, str) else ("tuple", s.kty[1]), "popped")
        st.assume(s.has(x))
        has0 = s.has
        self.writeback(ex, st, bm, SetV(lambda k: zand(znot(values_equal(k, x)), has0(k)), s.size - 1, s.kty))
        return x

    def set_add(self, ex, st, s, bm, args, kwargs, node):
        x = args[0]
        has0 = s.has
        had = has0(x)
        size = zite(had, s.size, s.size + 1)
        kty = s.kty if s.kty != "any" else "int"
        self.writeback(ex, st, bm, SetV(lambda k: zor(values_equal(k, x), has0(k)), size, kty))
        return None

    def set_isdisjoint(self, ex, st, s, bm, args, kwargs, node):
        o = args[0]
        k = ex.fresh_key(s.kty)
        return z3.ForAll(list(key_terms(k)), z3.Not(z3.And(to_z3(s.has(k)), to_z3(o.has(k)))))

    def set_union(self, ex, st, s, bm, args, kwargs, node):
        return self.ctx.objects.set_union(ex, st, s, args, node)

    # ------------------------------------------------------------------ python builtins
    def b_len(self, ex, st, args, kwargs, node):
        v = args[0]
        if isinstance(v, Seq):
            return v.n
        if isinstance(v, tuple):
            return len(v)
        if isinstance(v, (DictV, SetV)):
            return v.size
        if isinstance(v, str):
            return len(v)
        raise EngineError("%s:L%d: len of %r" % (ex.fnname, node.lineno, v))

    def b_range(self, ex, st, args, kwargs, node):
        args = [as_int(a) for a in args]
        if len(args) == 1:
            lo, hi = 0, args[0]
        elif len(args) == 2:
            lo, hi = args
        elif len(args) == 3 and isinstance(args[2], int) and args[2] > 0:
            lo, hi, step = args
            if all(isinstance(x, int) for x in (lo, hi)):
                return Seq.of(list(range(lo, hi, step)), "list")
            cnt = z3.If(to_z3(hi) > to_z3(lo), (to_z3(hi) - to_z3(lo) + step - 1) / step, z3.IntVal(0))
            return Seq(cnt, lambda i, lo=lo: lo + i * step, "list")
        else:
            raise EngineError("range with this step outside the subset")
        if isinstance(lo, int) and isinstance(hi, int):
            return Seq.of(list(range(lo, hi)), "list")
        n = z3.If(to_z3(hi) - to_z3(lo) < 0, z3.IntVal(0), to_z3(hi) - to_z3(lo))
        if isinstance(lo, int) and lo == 0:
            # common case: range(n) with n >= 0 known from the path — keep the term simple
            if ex.implied(st, to_z3(hi) >= 0):
                n = hi
        return Seq(n, lambda i, lo=lo: lo + i, "list")

    def b_zip(self, ex, st, args, kwargs, node):
        if len(args) == 1 and isinstance(args[0], Star):
            return self.transpose_rows(ex, st, args[0].value, node)
        seqs = [ex.as_seq(a, st) for a in args]
        n = seqs[0].n
        for s in seqs[1:]:
            if isinstance(n, int) and isinstance(s.n, int):
                n = min(n, s.n)
            elif n is s.n or (is_z3(n) and is_z3(s.n) and n.eq(s.n)):
                pass
            else:
                n = z3.If(to_z3(s.n) < to_z3(n), to_z3(s.n), to_z3(n))
        return Seq(n, lambda i, seqs=seqs: tuple(s.at(i) for s in seqs), "gen")

    def transpose_rows(self, ex, st, rows, node):
        """zip(*rows): rows is a sequence of k-tuples.  Result has k items when rows is
        non-empty and none otherwise (so unpacking it is an obligation len(rows) >= 1)."""
        rows = ex.as_seq(rows, st)
        ety = rows.ety()
        if not (isinstance(ety, tuple) and ety[0] == "tuple"):
            raise EngineError("%s:L%d: zip(*x) needs a sequence of tuples" % (ex.fnname, node.lineno))
        k = len(ety[1])
        n = zite(ex.cmp_ge(rows.n, 1), k, 0)

        def col(j, rows=rows):
            if not isinstance(j, int):
                raise EngineError("symbolic index into zip(*rows)")
            return Seq(rows.n, lambda i, j=j: rows.at(i)[j], "tuple")

        out = Seq(n, col, "gen")
        out.width = k
        return out

    def b_enumerate(self, ex, st, args, kwargs, node):
        s = ex.as_seq(args[0], st)
        start = as_int(kwargs.get("start", args[1] if len(args) > 1 else 0))
        return Seq(s.n, lambda i, s=s: (i + start, s.at(i)), "gen")

    def b_int(self, ex, st, args, kwargs, node):
        v = args[0]
        k = sort_of(v)
        if k in ("int", "bool"):
            return as_int(v)
        if k == "real":
            if not is_z3(v):
                import math
                return int(math.trunc(Fraction(v)))
            return z3.If(v >= 0, z3.ToInt(v), -z3.ToInt(-v))
        raise EngineError("int() of %r" % (v,))

    def b_float(self, ex, st, args, kwargs, node):
        return as_real(args[0])

    def b_bool(self, ex, st, args, kwargs, node):
        return ex.truth(args[0])

    def b_str(self, ex, st, args, kwargs, node):
        return "<formatted>"

    def b_abs(self, ex, st, args, kwargs, node):
        v = args[0]
        if not is_z3(v):
            return abs(v)
        return z3.If(v >= 0, v, -v)

    def b_list(self, ex, st, args, kwargs, node):
        if not args:
            return Seq.of([], "list")
        return ex.as_seq(args[0], st).with_kind("list")

    def b_tuple(self, ex, st, args, kwargs, node):
        s = ex.as_seq(args[0], st)
        if s.concrete_len():
            return tuple(s.at(j) for j in range(s.n))
        return s.with_kind("tuple")

    def b_reversed(self, ex, st, args, kwargs, node):
        s = ex.as_seq(args[0], st)
        if s.items is not None:
            return Seq.of(list(reversed(s.items)), "list")
        return Seq(s.n, lambda i, s=s: s.at(s.n - 1 - i), "list")

    def b_all(self, ex, st, args, kwargs, node):
        return self.all_of(ex, st, ex.as_seq(args[0], st))

    def b_any(self, ex, st, args, kwargs, node):
        return self.any_of(ex, st, ex.as_seq(args[0], st))

    def b_min(self, ex, st, args, kwargs, node):
        return self._minmax(ex, st, args, kwargs, node, True)

    def b_max(self, ex, st, args, kwargs, node):
        return self._minmax(ex, st, args, kwargs, node, False)

    def _minmax(self, ex, st, args, kwargs, node, lower):
        if len(args) >= 2:
            r = args[0]
            for x in args[1:]:
                c = ex.cmp_lt(x, r) if lower else ex.cmp_gt(x, r)
                r = zite(c, x, r)
            return r
        return self.extremum(ex, st, ex.as_seq(args[0], st), node, lower)

    def b_sum(self, ex, st, args, kwargs, node):
        s = ex.as_seq(args[0], st)
        if len(args) == 2:
            start = args[1]
            if isinstance(start, (Seq, tuple)):
                return self.ctx.objects.flatten(ex, st, s, start, node)
            return ex.scalar_binop(ast.Add(), start, self.sum_of(ex, st, s), st, node)
        return self.sum_of(ex, st, s)

    def b_isinstance(self, ex, st, args, kwargs, node):
        raise EngineError("isinstance outside the subset")

    def b_next(self, ex, st, args, kwargs, node):
        return self.ctx.objects.next_of(ex, st, args[0], node)

    def b_print(self, ex, st, args, kwargs, node):
        return None

    def b_round(self, ex, st, args, kwargs, node):
        v = as_real(args[0])
        if len(args) > 1:
            raise EngineError("round(x, n) outside the subset")
        if not is_z3(v):
            return round(Fraction(v))
        f = z3.ToInt(v)
        frac = v - z3.ToReal(f)
        half = z3.RealVal("1/2")
        return z3.If(frac < half, f, z3.If(frac > half, f + 1, z3.If(f % 2 == 0, f, f + 1)))

    def b_set(self, ex, st, args, kwargs, node):
        if not args:
            return SetV(lambda k: False, 0, "any")
        v = args[0]
        if isinstance(v, SetV):
            return v
        if isinstance(v, DictV):
            return SetV(v.dom, v.size, v.kty)
        return self.set_of_seq(ex, st, ex.as_seq(v, st))

    def set_of_seq(self, ex, st, s):
        if s.concrete_len() and s.n == 0:
            return SetV(lambda k: False, 0, "any")
        ety = s.ety()
        kty = "int" if ety in ("int", "bool") else ety
        if not (kty == "int" or (isinstance(kty, tuple) and kty[0] == "tuple")):
            raise EngineError("set of %r outside the subset" % (ety,))
        arity = 1 if kty == "int" else len(kty[1])
        mem = z3.Function(uid("inset"), *([I] * arity + [B]))
        wit = z3.Function(uid("setwit"), *([I] * arity + [I]))
        n = to_z3(s.n)
        k = ex.fresh_key(kty)
        ks = list(key_terms(k))
        w = wit(*ks)
        st.assume(z3.ForAll(ks, mem(*ks) == z3.And(w >= 0, w < n, to_z3(values_equal(_askey(s.at(w)), k))), patterns=[mem(*ks)]))
        j = bvar("j")
        ej = _askey(s.at(j))
        # trigger: the element itself when it is an uninterpreted application, else the smallest uninterpreted
        # applications of j inside it (e.g. src(j) of a selection), so that a known position yields membership
        pj = [t for t in key_terms(ej) if is_z3(t) and _valid_pattern(t)]
        if not (pj and len(pj) == len(key_terms(ej))):
            pj = _inner_patterns([t for t in key_terms(ej) if is_z3(t)], j)
        body = z3.Implies(z3.And(j >= 0, j < n), mem(*key_terms(ej)))
        try:
            st.assume(z3.ForAll([j], body, **({"patterns": [pj[0]] if len(pj) == 1 else [z3.MultiPattern(*pj)]} if pj else {})))
        except z3.Z3Exception:
            st.assume(z3.ForAll([j], body))
        size = z3.Int(uid("setsize"))
        i2 = bvar("i")
        distinct = z3.ForAll([j, i2], z3.Implies(z3.And(j >= 0, j < i2, i2 < n), z3.Not(to_z3(values_equal(_askey(s.at(j)), _askey(s.at(i2)))))))
        st.assume(size >= 0, size <= n, z3.Implies(n >= 1, size >= 1), (size == n) == distinct)
        # exactly one element  <=>  non-empty and all entries equal the first
        allsame = z3.ForAll([j], z3.Implies(z3.And(j >= 0, j < n), to_z3(values_equal(_askey(s.at(j)), _askey(s.at(0))))))
        st.assume((size == 1) == z3.And(n >= 1, allsame), (size == 0) == (n == 0))
        return SetV(lambda kk: mem(*key_terms(kk)), size, kty)

    def b_sorted(self, ex, st, args, kwargs, node):
        v = args[0]
        key = kwargs.get("key")
        if isinstance(v, SetV):
            if key is not None:
                raise EngineError("sorted(set, key=) outside the subset")
            return self.sorted_set(ex, st, v)
        s = ex.as_seq(v, st)
        if isinstance(v, DictV):
            return self.sorted_set(ex, st, SetV(v.dom, v.size, v.kty))
        return self.sorted_seq(ex, st, s, key, node)

    def sorted_set(self, ex, st, s):
        if isinstance(s.size, int) and s.size == 0:
            return Seq.of([], "list")
        if s.kty != "int":
            raise EngineError("sorted(set of tuples) outside the subset")
        u = z3.Function(uid("sorted"), I, I)
        pos = z3.Function(uid("sortpos"), I, I)
        m = to_z3(s.size)
        j, j2, k = bvar("j"), bvar("j"), bvar("k")
        st.assume(m >= 0)
        st.assume(z3.ForAll([j], z3.Implies(z3.And(j >= 0, j < m), z3.And(to_z3(s.has(u(j))), pos(u(j)) == j)), patterns=[u(j)]))
        hk = to_z3(s.has(k))
        st.assume(z3.ForAll([k], z3.Implies(hk, z3.And(pos(k) >= 0, pos(k) < m, u(pos(k)) == k)),
                            patterns=[pos(k)] + ([hk] if _valid_pattern(hk) else [])))
        st.assume(z3.ForAll([j, j2], z3.Implies(z3.And(j >= 0, j < j2, j2 < m), u(j) < u(j2)), patterns=[z3.MultiPattern(u(j), u(j2))]))
        return Seq(s.size, lambda i: u(to_z3(i)), "list")

    def sorted_seq(self, ex, st, s, key, node):
        """Stable sort: r[j] = s[perm(j)], perm a bijection, keys non-decreasing, ties keep order."""
        keyf = (lambda x: x) if key is None else (lambda x: self.apply(ex, st, key, [x], {}, node))
        if s.concrete_len() and s.n <= 1:
            return s.with_kind("list")
        n = to_z3(s.n)
        perm = z3.Function(uid("perm"), I, I)
        inv = z3.Function(uid("perminv"), I, I)
        j, j2 = bvar("j"), bvar("j")
        st.assume(z3.ForAll([j], z3.Implies(z3.And(j >= 0, j < n), z3.And(perm(j) >= 0, perm(j) < n, inv(perm(j)) == j)), patterns=[perm(j)]))
        # alternative trigger: a mention of the j-th element of the unsorted sequence gives its position in the sorted one
        pats = [inv(j)]
        try:
            ej = s.at(j)
            ej = [t for t in (key_terms(ej) if isinstance(ej, tuple) else (ej,)) if is_z3(t)]
            if len(ej) == 1 and _valid_pattern(ej[0]):
                pats.append(ej[0])
        except Exception:
            pass
        body2 = z3.Implies(z3.And(j >= 0, j < n), z3.And(inv(j) >= 0, inv(j) < n, perm(inv(j)) == j))
        try:
            st.assume(z3.ForAll([j], body2, patterns=pats))
        except z3.Z3Exception:
            st.assume(z3.ForAll([j], body2, patterns=[inv(j)]))
        r = Seq(s.n, lambda i, s=s: s.at(perm(to_z3(i))), "list")
        r.width = ("perminv", inv)            # for the contract vocabulary sort_position(sorted_list, p)
        saved = ex.checking
        ex.checking = False
        try:
            kj, kj2 = keyf(r.at(j)), keyf(r.at(j2))
        finally:
            ex.checking = saved
        st.assume(z3.ForAll([j, j2], z3.Implies(z3.And(j >= 0, j < j2, j2 < n),
                                                 z3.And(to_z3(ex.cmp_le(kj, kj2)),
                                                        z3.Implies(to_z3(values_equal(kj, kj2)), perm(j) < perm(j2)))),
                            patterns=[z3.MultiPattern(perm(j), perm(j2))]))
        if ex.checking and key is not None:
            # the key function is applied to every element: emit its safety obligations once
            p = ex._probe_index(st, s.n)
            keyf_chk = lambda x: self.apply(ex, p[0], key, [x], {}, node)
            keyf_chk(s.at(p[1]))
        return r

    def b_dict(self, ex, st, args, kwargs, node):
        if not args:
            return DictV(lambda k: False, lambda k: None, 0, "any", "any")
        v = args[0]
        if isinstance(v, DictV):
            return v
        return self.dict_from_pairs(ex, st, ex.as_seq(v, st))

    def dict_from_pairs(self, ex, st, pairs):
        if pairs.concrete_len() and pairs.n == 0:
            return DictV(lambda k: False, lambda k: None, 0, "any", "any")
        ety = pairs.ety()
        if not (isinstance(ety, tuple) and ety[0] == "tuple" and len(ety[1]) == 2):
            raise EngineError("dict() of non-pairs")
        kty, vty = ety[1]
        if kty == "bool":
            kty = "int"
        arity = 1 if kty == "int" else len(kty[1])
        dom = z3.Function(uid("ddom"), *([I] * arity + [B]))
        wit = z3.Function(uid("dwit"), *([I] * arity + [I]))
        n = to_z3(pairs.n)
        k = ex.fresh_key(kty)
        ks = list(key_terms(k))
        w = wit(*ks)
        keyat = lambda i: _askey(pairs.at(i)[0])
        st.assume(z3.ForAll(ks, dom(*ks) == z3.And(w >= 0, w < n, to_z3(values_equal(keyat(w), k))), patterns=[dom(*ks)]))
        j = bvar("j")
        kj = keyat(j)
        st.assume(z3.ForAll([j], z3.Implies(z3.And(j >= 0, j < n), z3.And(dom(*key_terms(kj)), wit(*key_terms(kj)) >= j))))
        size = z3.Int(uid("dsize"))
        i2 = bvar("i")
        distinct = z3.ForAll([j, i2], z3.Implies(z3.And(j >= 0, j < i2, i2 < n), z3.Not(to_z3(values_equal(keyat(j), keyat(i2))))))
        st.assume(size >= 0, size <= n, z3.Implies(n >= 1, size >= 1), (size == n) == distinct)
        return DictV(lambda kk: dom(*key_terms(kk)), lambda kk: pairs.at(wit(*key_terms(kk)))[1], size, kty, vty)

    def dict_comp(self, ex, node, st):
        pairs = ex.comprehension(node, st, "list", elt=ast.Tuple(elts=[node.key, node.value], ctx=ast.Load(), lineno=node.lineno, col_offset=0))
        return self.dict_from_pairs(ex, st, pairs)

    def dict_display(self, ex, node, st):
        d = DictV(lambda k: False, lambda k: None, 0, "any", "any")
        strs = {}
        for k, v in zip(node.keys, node.values):
            kv = ex.eval(k, st)
            vv = ex.eval(v, st)
            if isinstance(kv, str):
                strs[kv] = vv
            else:
                d = ex.dict_store(d, kv, vv)
        if strs:
            return Opaque("strdict", **strs)
        return d

    def b_defaultdict(self, ex, st, args, kwargs, node):
        return self.ctx.objects.defaultdict(ex, st, args, node)

    # ------------------------------------------------------------------ numpy
    def b_np_array(self, ex, st, args, kwargs, node):
        v = args[0]
        dtype = kwargs.get("dtype", args[1] if len(args) > 1 else None)
        if isinstance(v, tuple):
            v = Seq.of(list(v), "array")
        if isinstance(v, Seq):
            out = v.with_kind("array")
            if dtype is not None:
                out = self.convert_seq(ex, out, dtype)
            return out
        if is_scalar(v):
            return v
        raise EngineError("%s:L%d: np.array of %r" % (ex.fnname, node.lineno, v))

    def b_np_zeros(self, ex, st, args, kwargs, node):
        shape = args[0]
        dtype = kwargs.get("dtype", args[1] if len(args) > 1 else None)
        kind = _dtype_kind(dtype) if dtype is not None else "real"
        zero = {"bool": False, "int": 0, "real": Fraction(0)}[kind]
        if isinstance(shape, tuple):
            if len(shape) == 1:
                return Seq(shape[0], lambda i: zero, "array")
            if len(shape) == 2:
                r, c = shape
                return Seq(r, lambda i: Seq(c, lambda j: zero, "array"), "array")
            raise EngineError("np.zeros of rank > 2")
        return Seq(as_int(shape), lambda i: zero, "array")

    def b_np_empty(self, ex, st, args, kwargs, node):
        shape = args[0]
        dtype = kwargs.get("dtype", args[1] if len(args) > 1 else None)
        kind = _dtype_kind(dtype) if dtype is not None else "real"
        if isinstance(shape, tuple):
            if len(shape) != 1:
                raise EngineError("np.empty of rank > 1")
            shape = shape[0]
        return fresh_seq(kind, "empty", (), None, "array", n=as_int(shape))

    def b_np_concatenate(self, ex, st, args, kwargs, node):
        parts = args[0]
        if isinstance(parts, Seq) and parts.concrete_len():
            parts = tuple(parts.at(j) for j in range(parts.n))
        parts = [ex.arrayish(p) if not isinstance(p, Seq) else p for p in parts]
        if any(p.ety() == "real" for p in parts if not (p.concrete_len() and p.n == 0)):
            parts = [ex.map_seq(p, as_real, "array") for p in parts]
        return ex.seq_concat(parts, "array")

    def b_np_isfinite(self, ex, st, args, kwargs, node):
        trusted("floats are finite reals (mode R): np.isfinite is identically True")
        v = args[0]
        if isinstance(v, tuple):
            v = Seq.of(list(v), "array")
        if isinstance(v, Seq):
            return Seq(v.n, lambda i: True, "array")
        return True

    def b_np_diff(self, ex, st, args, kwargs, node):
        trusted("numpy.diff: out[i] = a[i+1] - a[i], length max(n-1, 0)")
        a = ex.as_seq(args[0], st)
        if isinstance(a.n, int):
            n = max(a.n - 1, 0)
        else:
            if ex.implied(st, to_z3(a.n) >= 1):
                n = a.n - 1
            else:
                n = ex.define(st, z3.If(to_z3(a.n) >= 1, to_z3(a.n) - 1, z3.IntVal(0)), "dlen")
        return Seq(n, lambda i, a=a: ex.scalar_binop(ast.Sub(), a.at(i + 1), a.at(i), st, node), "array")

    def b_np_cumsum(self, ex, st, args, kwargs, node):
        trusted("numpy.cumsum: c[0] = a[0], c[k] = c[k-1] + a[k]")
        a = ex.as_seq(args[0], st)
        c = self.partial_sums(ex, st, a)
        return Seq(a.n, lambda i: c(to_z3(i)), "array")

    def b_np_nonzero(self, ex, st, args, kwargs, node):
        trusted("numpy.nonzero (1-D): the ascending indices of the true / non-zero elements")
        a = ex.as_seq(args[0], st)
        rng = Seq(a.n, lambda i: i, "array")
        out, _, _ = ex.seq_filter(rng, lambda i: ex.truth(a.at(i)), st, mask=a if a.ety() == "bool" else None)
        return (out,)

    def b_np_argwhere(self, ex, st, args, kwargs, node):
        trusted("numpy.argwhere (1-D): the ascending indices of the true elements, as an (n, 1) array")
        a = ex.as_seq(args[0], st)
        rng = Seq(a.n, lambda i: i, "array")
        out, _, _ = ex.seq_filter(rng, lambda i: ex.truth(a.at(i)), st)
        return Opaque("argwhere", idx=out)

    def b_np_all(self, ex, st, args, kwargs, node):
        return self.all_of(ex, st, ex.as_seq(args[0], st))

    def b_np_missing(self, ex, st, args, kwargs, node):
        if hasattr(self.ctx._numpy, "alltrue"):
            return self.all_of(ex, st, ex.as_seq(args[0], st))
        ex.oblige(st, False, "attribute-defined", node, "numpy %s has no such attribute" % self.ctx.numpy_version)
        st.assume(False)
        return None

    def b_np_minimum(self, ex, st, args, kwargs, node):
        return self._elementwise2(ex, st, args[0], args[1], lambda a, b: zite(ex.cmp_lt(a, b), a, b), node)

    def b_np_maximum(self, ex, st, args, kwargs, node):
        return self._elementwise2(ex, st, args[0], args[1], lambda a, b: zite(ex.cmp_gt(a, b), a, b), node)

    def _elementwise2(self, ex, st, a, b, f, node):
        if isinstance(a, Seq) and isinstance(b, Seq):
            ex.oblige(st, ex.cmp_eq(a.n, b.n), "broadcast-shape", node)
            return Seq(a.n, lambda i: f(a.at(i), b.at(i)), "array")
        if isinstance(a, Seq):
            return Seq(a.n, lambda i: f(a.at(i), b), "array")
        if isinstance(b, Seq):
            return Seq(b.n, lambda i: f(a, b.at(i)), "array")
        return f(a, b)

    def b_np_ceil(self, ex, st, args, kwargs, node):
        def ceil(x):
            x = as_real(x)
            if not is_z3(x):
                import math
                return Fraction(math.ceil(x))
            return z3.ToReal(-z3.ToInt(-x))
        v = args[0]
        if isinstance(v, Seq):
            return Seq(v.n, lambda i: ceil(v.at(i)), "array")
        return ceil(v)

    def b_np_floor(self, ex, st, args, kwargs, node):
        def floor(x):
            x = as_real(x)
            if not is_z3(x):
                import math
                return Fraction(math.floor(x))
            return z3.ToReal(z3.ToInt(x))
        v = args[0]
        if isinstance(v, Seq):
            return Seq(v.n, lambda i: floor(v.at(i)), "array")
        return floor(v)

    def _uf1(self, ex, name, v, axioms=None):
        f = self.ctx.uf(name, R, R)
        if isinstance(v, Seq):
            return Seq(v.n, lambda i: f(to_z3(as_real(v.at(i)))), "array")
        if isinstance(v, tuple):
            return Seq.of([f(to_z3(as_real(x))) for x in v], "array")
        return f(to_z3(as_real(v)))

    def b_np_exp(self, ex, st, args, kwargs, node):
        trusted("exp: uninterpreted real function with exp(x) > 0 (no further properties assumed)")
        f = self.ctx.uf("exp", R, R)
        if not st.ghost.get("exp_pos"):
            st.ghost["exp_pos"] = True
            x = z3.Real(uid("x"))
            from .values import BOUND
            BOUND.add(x.decl().name())
            st.pc.append(z3.ForAll([x], f(x) > 0, patterns=[f(x)]))
        return self._uf1(ex, "exp", args[0])

    def b_np_log(self, ex, st, args, kwargs, node):
        trusted("log: uninterpreted real function (argument must be positive)")
        v = args[0]
        if isinstance(v, Seq):
            p = ex._probe_index(st, v.n)
            if p:
                ex.oblige(p[0], ex.cmp_gt(v.at(p[1]), 0), "log-of-positive", node)
        elif is_scalar(v):
            ex.oblige(st, ex.cmp_gt(v, 0), "log-of-positive", node)
        return self._uf1(ex, "log", v)

    def b_np_linspace(self, ex, st, args, kwargs, node):
        trusted("numpy.linspace(a, b, n)[i] = a + i (b - a) / (n - 1)")
        a, b, n = as_real(args[0]), as_real(args[1]), as_int(args[2])
        if not isinstance(n, int) or n < 2:
            raise EngineError("linspace with symbolic / tiny count outside the subset")
        if not is_z3(a) and not is_z3(b):
            step = (Fraction(b) - Fraction(a)) / (n - 1)
            return Seq(n, lambda i: Fraction(a) + Fraction(i) * step if isinstance(i, int) else to_z3(Fraction(a)) + z3.ToReal(to_z3(i)) * to_z3(step), "array")
        return Seq(n, lambda i: a + as_real(i) * (b - a) / (n - 1), "array")

    def b_np_allclose(self, ex, st, args, kwargs, node):
        trusted("numpy.allclose(a, b, rtol, atol): |a - b| <= atol + rtol |b| element-wise (defaults 1e-8, 1e-5)")
        a, b = args[0], args[1]
        rtol = as_real(kwargs.get("rtol", Fraction(1, 10**5)))
        atol = as_real(kwargs.get("atol", Fraction(1, 10**8)))
        if is_z3(rtol) or is_z3(atol):
            raise EngineError("allclose with symbolic tolerances outside the subset")
        def close(x, y):
            x, y = as_real(x), as_real(y)
            d = ex.scalar_binop(ast.Sub(), x, y, st, node)
            ad = self.b_abs(ex, st, [d], {}, node)
            ay = self.b_abs(ex, st, [y], {}, node)
            return ex.cmp_le(ad, Fraction(atol) + Fraction(rtol) * ay if Fraction(rtol) != 0 else Fraction(atol))
        if isinstance(a, Seq) or isinstance(b, Seq):
            a2 = a if isinstance(a, Seq) else None
            b2 = b if isinstance(b, Seq) else None
            n = (a2 or b2).n
            if a2 is not None and b2 is not None:
                ex.oblige(st, ex.cmp_eq(a2.n, b2.n), "broadcast-shape", node)
            return self.all_of(ex, st, Seq(n, lambda i: close(a2.at(i) if a2 is not None else a, b2.at(i) if b2 is not None else b), "array"))
        return close(a, b)

    def b_np_mean(self, ex, st, args, kwargs, node):
        v = args[0]
        if is_scalar(v):
            return as_real(v)
        return self.mean_of(ex, st, ex.as_seq(v, st), node)

    def b_math_floor(self, ex, st, args, kwargs, node):
        x = as_real(args[0])
        if not is_z3(x):
            import math
            return math.floor(x)
        return z3.ToInt(x)

    def b_math_ceil(self, ex, st, args, kwargs, node):
        x = as_real(args[0])
        if not is_z3(x):
            import math
            return math.ceil(x)
        return -z3.ToInt(-x)

    def b_np_issubdtype(self, ex, st, args, kwargs, node):
        d, k = args
        if isinstance(d, Opaque) and d.kind == "dtype" and isinstance(k, Builtin):
            have = d.get("name")
            if k.name == "dtype_int":
                return have == "int"
            if k.name == "dtype_float":
                return have == "real"
        raise EngineError("%s:L%d: np.issubdtype outside the subset" % (ex.fnname, node.lineno))

    def b_np_interp(self, ex, st, args, kwargs, node):
        """np.interp(x, xp, fp): the piecewise-linear interpolant through (xp, fp), clamped to fp[0] / fp[-1]
        outside [xp[0], xp[-1]].  numpy does not check that xp is increasing: that is an obligation here."""
        trusted("numpy.interp(x, xp, fp): for increasing xp the straight-line interpolant between the adjacent points that "
                "bracket x (exact at the points), fp[0] / fp[-1] outside [xp[0], xp[-1]]; validated by bounded.load_checks:run_C10")
        if kwargs or len(args) != 3:
            raise EngineError("%s:L%d: np.interp with left / right / period outside the subset" % (ex.fnname, node.lineno))
        x = ex.as_seq(args[0], st)
        xp = ex.as_seq(args[1], st)
        fp = ex.as_seq(args[2], st)
        ex.oblige(st, ex.cmp_eq(xp.n, fp.n), "interp-shapes", node)
        ex.oblige(st, ex.cmp_le(1, xp.n), "interp-nonempty", node)
        a, b = bvar("a"), bvar("b")
        n = to_z3(xp.n)
        ex.oblige(st, z3.ForAll([a, b], z3.Implies(z3.And(a >= 0, a < b, b < n),
                                                   to_z3(as_real(xp.at(a))) < to_z3(as_real(xp.at(b))))), "interp-xp-increasing", node)
        if ex.bound_stack:
            raise EngineError("np.interp under a bound variable")
        val = z3.Function(uid("interp"), I, R)
        k, s = bvar("k"), bvar("s")
        xk = to_z3(as_real(x.at(k)))
        xs, xs1 = to_z3(as_real(xp.at(s))), to_z3(as_real(xp.at(s + 1)))
        ys, ys1 = to_z3(as_real(fp.at(s))), to_z3(as_real(fp.at(s + 1)))
        saved = ex.checking
        ex.checking = False
        try:
            lin = ex.scalar_binop(ast.Add(), ys, ex.scalar_binop(ast.Div(), ex.scalar_binop(ast.Mult(), xk - xs, ys1 - ys, st, node),
                                                                 xs1 - xs, st, node), st, node)
        finally:
            ex.checking = saved
        m = to_z3(x.n)
        st.assume(z3.ForAll([k, s], z3.Implies(z3.And(k >= 0, k < m, s >= 0, s < n - 1, xs <= xk, xk <= xs1),
                                               z3.And(val(k) == lin, z3.Implies(xk == xs, val(k) == ys),
                                                      z3.Implies(xk == xs1, val(k) == ys1)))))
        st.assume(z3.ForAll([k], z3.Implies(z3.And(k >= 0, k < m),
                                            z3.And(z3.Implies(xk <= to_z3(as_real(xp.at(0))), val(k) == to_z3(as_real(fp.at(0)))),
                                                   z3.Implies(xk >= to_z3(as_real(xp.at(xp.n - 1))),
                                                              val(k) == to_z3(as_real(fp.at(xp.n - 1)))))),
                            patterns=[val(k)]))
        # a bracketing segment exists for every x within the range (named, so that it can be instantiated)
        seg = z3.Function(uid("interp_seg"), I, I)
        xseg, xseg1 = to_z3(as_real(xp.at(seg(k)))), to_z3(as_real(xp.at(seg(k) + 1)))
        st.assume(z3.ForAll([k], z3.Implies(z3.And(k >= 0, k < m, to_z3(as_real(xp.at(0))) <= xk, xk <= to_z3(as_real(xp.at(xp.n - 1))), n >= 2),
                                            z3.And(seg(k) >= 0, seg(k) < n - 1, xseg <= xk, xk <= xseg1)),
                            patterns=[val(k)]))
        return Seq(x.n, lambda kk: val(to_z3(as_int(kk))), "array")

    # ------------------------------------------------------------------ linear algebra by provenance
    def _cols(self, ex, st, X, node):
        """Number of columns of a 2-D array given as a sequence of rows (needs at least one row)."""
        ex.oblige(st, ex.cmp_ge(X.n, 1), "matrix-has-a-row", node, "the model reads the column count off row 0")
        return ex.as_seq(X.at(0), st).n

    def b_np_dot(self, ex, st, args, kwargs, node):
        """np.dot(X.transpose(), Y) for a 2-D array X and a 2-D or 1-D array Y: kept as a symbolic product term
        (shape known, entries not modelled); consumed by numpy.linalg.solve and the lstsq_solution vocabulary."""
        trusted("numpy.dot / ndarray.transpose / numpy.linalg.solve: matrix product, transpose and the solution x of M x = v "
                "(LinAlgError for a singular M); entries are not modelled, only which arrays the result was computed from")
        a, b = args
        if not (isinstance(a, Opaque) and a.kind == "transposed" and isinstance(b, Seq)):
            raise EngineError("%s:L%d: np.dot other than np.dot(X.transpose(), Y) outside the subset" % (ex.fnname, node.lineno))
        X = a.get("of")
        if not (isinstance(X.ety(), tuple) and X.ety()[0].startswith("seq:")):
            raise EngineError("%s:L%d: np.dot of a 1-D transpose outside the subset" % (ex.fnname, node.lineno))
        ex.oblige(st, ex.cmp_eq(X.n, b.n), "dot-shapes", node, "rows of the transposed factor and of the right factor")
        cx = self._cols(ex, st, X, node)
        if isinstance(b.ety(), tuple) and b.ety()[0].startswith("seq:"):
            return Opaque("matprod", left=X, right=b, shape=(cx, self._cols(ex, st, b, node)))
        return Opaque("matvec", left=X, right=b, shape=(cx,))

    def b_np_solve(self, ex, st, args, kwargs, node):
        M, v = args
        if not (isinstance(M, Opaque) and M.kind == "matprod" and isinstance(v, Opaque) and v.kind == "matvec"):
            raise EngineError("%s:L%d: linalg.solve of anything but the products above outside the subset" % (ex.fnname, node.lineno))
        r, c = M.get("shape")
        ex.oblige(st, ex.cmp_eq(r, c), "solve-square", node)
        ex.oblige(st, ex.cmp_eq(r, v.get("shape")[0]), "solve-shapes", node)
        w = z3.Bool(uid("raises_LinAlgError"))
        st.pending.append((list(st.pc), w, "LinAlgError"))
        st.assume(z3.Not(w))
        xf = z3.Function(uid("solve_x"), I, R)
        x = Seq(r, lambda i: xf(to_z3(as_int(i))), "array")
        reg = list(st.ghost.get("__solves__", []))
        reg.append((x, M, v))
        st.ghost["__solves__"] = reg
        return x

    def sf_key_position(self, ex, node, st):
        """key_position(d, k): the place of key k in the iteration order of dictionary d (meaningful when k in d).
        Mentioning it is how a contract instantiates 'a present key is enumerated somewhere'."""
        d = ex.eval(node.args[0], st)
        k = ex.eval(node.args[1], st)
        keys = ex.dict_keys(d, st)
        if not (isinstance(keys.width, tuple) and keys.width[0] == "keypos"):
            raise EngineError("key_position of a dictionary without a symbolic iteration order")
        return keys.width[1](*[to_z3(t) for t in key_terms(k)])

    def sf_dumped(self, ex, node, st):
        """dumped(k): the k-th value the function handed to yaml.dump so far."""
        k = ex.eval(node.args[0], st)
        vals = st.ghost.get("__dumped__", [])
        if not isinstance(k, int) or not (0 <= k < len(vals)):
            raise EngineError("dumped(%r): the function has dumped %d value(s) on this path" % (k, len(vals)))
        return vals[k]

    def sf_dump_count(self, ex, node, st):
        return len(st.ghost.get("__dumped__", []))

    def sf_sort_position(self, ex, node, st):
        """sort_position(r, p) for r = sorted(s, key=...): the place in r of the element that stood at position p of s."""
        r = ex.eval(node.args[0], st)
        pz = ex.eval(node.args[1], st)
        if not (isinstance(r, Seq) and isinstance(r.width, tuple) and r.width[0] == "perminv"):
            raise EngineError("sort_position of something that is not the direct result of sorted(...)")
        return r.width[1](to_z3(as_int(pz)))

    def sf_lstsq_solution(self, ex, node, st):
        """lstsq_solution(A, b): the array numpy.linalg.solve returned for (A^T A) x = A^T b in this execution, for
        exactly these two array objects; an unconstrained array when no such call happened (nothing is provable then)."""
        A = ex.eval(node.args[0], st)
        b = ex.eval(node.args[1], st)
        for x, M, v in st.ghost.get("__solves__", []):
            if M.get("left") is A and M.get("right") is A and v.get("left") is A and v.get("right") is b:
                return x
        return fresh_seq("real", "no_such_solve", (), None, "array")

    def b_np_isscalar(self, ex, st, args, kwargs, node):
        return is_scalar(args[0])

    def b_dtype_int(self, ex, st, args, kwargs, node):
        return as_int(args[0])

    def b_dtype_float(self, ex, st, args, kwargs, node):
        return as_real(args[0])


def _inner_patterns(terms, var):
    """The minimal uninterpreted applications inside `terms` that mention `var` and are usable as a pattern."""
    found = []

    def mentions(x):
        todo = [x]
        while todo:
            y = todo.pop()
            if y.eq(var):
                return True
            if z3.is_app(y):
                todo.extend(y.children())
        return False

    def walk(x):
        if not z3.is_app(x) or not mentions(x):
            return
        kids = [c for c in x.children() if mentions(c) and not c.eq(var)]
        inner_before = len(found)
        for c in kids:
            walk(c)
        if len(found) == inner_before and _valid_pattern(x) and not any(x.eq(f) for f in found):
            found.append(x)
    for t in terms:
        walk(t)
    return found[:1]


def _valid_pattern(t):
    if not (z3.is_app(t) and t.decl().kind() == z3.Z3_OP_UNINTERPRETED and t.num_args() > 0):
        return False
    bad = {z3.Z3_OP_ITE, z3.Z3_OP_NOT, z3.Z3_OP_AND, z3.Z3_OP_OR, z3.Z3_OP_EQ, z3.Z3_OP_IMPLIES, z3.Z3_OP_LE,
           z3.Z3_OP_LT, z3.Z3_OP_GE, z3.Z3_OP_GT, z3.Z3_OP_DISTINCT}
    todo = list(t.children())
    while todo:
        x = todo.pop()
        if z3.is_quantifier(x):
            return False
        if z3.is_app(x):
            if x.decl().kind() in bad:
                return False
            todo.extend(x.children())
    return True


class _StarMark:
    def __init__(self, value):
        self.value = value


class Star:
    def __init__(self, value):
        self.value = value


class SetDefaultRef:
    """Result of d.setdefault(k, []) — only `.append(x)` on it is supported (written back into d)."""

    def __init__(self, bm, key, value):
        self.bm, self.key, self.value = bm, key, value


class _Missing:
    pass


_MISSING = _Missing()


def _carry(st, s2, drop=0):
    """Assumptions created (fresh functions with axioms) while evaluating under a binder persist."""
    new = s2.pc[len(st.pc):]
    st.pc.extend(new)


def _conjuncts(node):
    if isinstance(node, ast.BoolOp) and isinstance(node.op, ast.And):
        out = []
        for v in node.values:
            out += _conjuncts(v)
        return out
    return [node]


def _as_store(node):
    import copy
    n = copy.copy(node)
    if hasattr(n, "ctx"):
        n.ctx = ast.Store()
    return n


def _dtype_kind(dtype):
    if isinstance(dtype, Builtin):
        return {"bool": "bool", "int": "int", "float": "real", "dtype_int": "int", "dtype_float": "real"}[dtype.name]
    if isinstance(dtype, str):
        if dtype.startswith("int"):
            return "int"
        if dtype.startswith("float"):
            return "real"
        if dtype == "bool":
            return "bool"
    raise EngineError("unknown dtype %r" % (dtype,))


def _to_int_dtype(v):
    if sort_of(v) == "real":
        if is_z3(v) and z3.is_to_real(v):
            return v.arg(0)
        if is_z3(v):
            return z3.If(v >= 0, z3.ToInt(v), -z3.ToInt(-v))
        import math
        return int(math.trunc(Fraction(v)))
    return as_int(v)


def _askey(v):
    if isinstance(v, tuple):
        return tuple(as_int(x) for x in v)
    return as_int(v)
