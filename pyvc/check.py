"""Driver: decide one property.  Usage: python -m pyvc.check <ID> [--tier quick|thorough] [--replay PATH]

exit 0  every obligation of every function the property depends on was discharged, every bounded
        stand-in / validation was clean (known findings are printed, not failed)
exit 1  VIOLATION property=<ID> replay=<path>[ no-failing-input-found]
exit 2  undecided: the engine could not process a function and its bounded stand-in could not run
exit 3  the checker itself is broken (vacuous proof, crash)
"""
import argparse
import hashlib
import importlib
import json
import multiprocessing as mp
import os
import random
import re
import sys
import time
import traceback

HERE = os.path.dirname(os.path.dirname(os.path.abspath(__file__)))
REPO = os.environ.get("SPOWTD_REPO", "/repo")
CONTRACTS = os.path.join(HERE, "contracts")


# ----------------------------------------------------------------------------- proof worker

def verify_target(job):
    """Generate the VCs of one target and discharge the k-th of n slices of its obligations (obligation i belongs to
    slice i % n; z3 terms cannot be shipped between processes, so every slice regenerates the VCs, which is cheap)."""
    target, tier = job[0], job[1]
    k, nsl = (job[2], job[3]) if len(job) > 2 else (0, 1)
    t0 = time.time()
    out = {"target": target, "obligations": [], "trivial": 0, "engine_error": None, "canary": "ok",
           "source": None, "failed": [], "seconds": 0.0, "trusted": [], "called": []}
    try:
        from pyvc.verifier import Verifier
        from pyvc.solve import discharge, smt2_of
        from pyvc.values import EngineError
        from pyvc import libspec
        import z3
        v = Verifier(REPO, CONTRACTS)
        try:
            ex, obls = v.vc(target)
        except EngineError as e:
            out["engine_error"] = str(e)
            out["seconds"] = time.time() - t0
            return out
        if not target.startswith("lemma:"):
            modname, qual = target.split("#")[0].split(":")
            out["source"] = v.module(modname).function_source(qual)
        out["trivial"] = ex.trivial
        import ast as _ast
        cobj = v.registry.contracts.get(target) if not target.startswith("lemma:") else None
        out["native_only_clauses"] = [_ast.unparse(e)[:240] for e in getattr(cobj, "native_ensures", [])] if cobj is not None else []
        timeout = 20000 if tier == "quick" else 120000
        out["generated"] = len(obls)
        for i, o in enumerate(obls):
            if i % nsl != k:
                continue
            # after two undischarged obligations in this slice the verdict of the function is settled: the rest gets the
            # cheap stage only (recorded as "not pursued", never reported as a violation by itself)
            r = discharge(o, timeout, use_cvc5=True, cheap_only=len(out["failed"]) >= 2)
            rec = {"name": o.name, "status": r["status"], "backend": r["backend"], "seconds": round(r["seconds"], 3), "index": i}
            if tier == "thorough" and r["status"] == "proved":
                from pyvc.solve import cvc5_check
                c5 = cvc5_check(smt2_of(o), 20000)
                rec["cvc5_recheck"] = c5
            if r["status"] != "proved":
                rec["note"] = o.note
                rec["reason"] = r.get("reason", "")
                rec["smt2"] = smt2_of(o)
                out["failed"].append(rec)
            out["obligations"].append({k: rec[k] for k in rec if k != "smt2"})
        # vacuity canaries: `false` must not follow from the preconditions, nor at every exit
        def contradictory(cny):
            s = z3.Solver()
            s.set("timeout", 3000)
            s.add(*cny.hyps)
            return s.check() == z3.unsat
        cans = getattr(ex, "canaries", []) if k == 0 else []
        if cans:
            if contradictory(cans[0]):
                out["canary"] = "vacuous: the preconditions of %s are contradictory" % target
            elif len(cans) > 1 and all(contradictory(c) for c in cans[1:12]):
                out["canary"] = "vacuous: every explored exit of %s has contradictory assumptions" % target
        out["trusted"] = sorted(libspec.TRUSTED)
        out["called"] = sorted(libspec.CALLED)
    except Exception:
        out["engine_error"] = "CRASH " + traceback.format_exc()[-1500:]
    out["seconds"] = time.time() - t0
    return out


# ----------------------------------------------------------------------------- native side

def native_examples(target, tier, seed, stop_at_first_failure=True, limit=None):
    """Run the sidecar's examples for `target` on the real function.  Returns (evaluations,
    admitted, failures[list of (input, failure)], samples)."""
    from pyvc import native, spec as specmod
    from pyvc.contracts import Registry
    ns = native.load_sidecars(CONTRACTS)
    reg = Registry()
    reg.load_dir(CONTRACTS)
    c = reg.contracts[target]
    gen = specmod.EXAMPLES.get(target)
    if gen is None:
        return 0, 0, [], []
    nc = native.NativeContract(c, ns, REPO)
    adapter = specmod.ADAPTERS.get(target)
    func = adapter(REPO) if adapter else native.resolve_function(REPO, target)
    rng = random.Random(seed)
    evals = admitted = 0
    failures, samples = [], []
    for kwargs in gen(tier, rng):
        evals += 1
        r = nc.run(func, kwargs)
        if r is not None and r.get("skipped"):
            continue
        admitted += 1
        if len(samples) < 3:
            samples.append(native.jsonable(kwargs))
        if r is not None:
            failures.append((native.jsonable(kwargs), r))
            if stop_at_first_failure:
                break
        if limit and evals >= limit:
            break
    return evals, admitted, failures, samples


def replay_file(path):
    from pyvc import native, spec as specmod
    from pyvc.contracts import Registry
    with open(path) as f:
        rec = json.load(f)
    if rec.get("input") is None:
        print("replay %s: no concrete input recorded (obligation %s); solver output:\n%s" % (path, rec.get("obligation"), rec.get("solver", "")))
        return 1
    ns = native.load_sidecars(CONTRACTS)
    reg = Registry()
    reg.load_dir(CONTRACTS)
    target = rec.get("replay_function") or rec["function"]
    if rec.get("kind") == "bounded":
        mod = importlib.import_module(rec["validator_module"])
        ok = mod.replay(REPO, rec)
        print("replay %s: %s" % (path, "violation reproduced" if not ok else "no violation"))
        return 0 if ok else 1
    c = reg.contracts[target]
    nc = native.NativeContract(c, ns, REPO)
    adapter = specmod.ADAPTERS.get(target)
    func = adapter(REPO) if adapter else native.resolve_function(REPO, target)
    r = nc.run(func, native.unjson(rec["input"]))
    if r is None or r.get("skipped"):
        print("replay %s: contract holds on the recorded input" % path)
        return 0
    print("replay %s: VIOLATION reproduced: %s" % (path, json.dumps(r)[:600]))
    return 1


# ----------------------------------------------------------------------------- main

def clause_key(name):
    """'classify.f:L123:ensures[0.1]#2.0' -> 'classify.f:ensures[0.1]' (line numbers are not identity)."""
    m = re.match(r"^(.*?):L\d+:(.*?)#", name)
    return "%s:%s" % (m.group(1), m.group(2)) if m else name


def backend_summary(per_obl):
    """How many obligations each back end / configuration discharged (hypothesis-subset size dropped)."""
    import collections
    c = collections.Counter()
    for o in per_obl:
        if o.get("status") == "proved":
            c[re.sub(r"\[\d+ of \d+ hyps\]", "", o.get("backend", "?"))] += 1
    return dict(c.most_common())


def has_examples(target):
    from pyvc import native, spec as specmod
    native.load_sidecars(CONTRACTS)
    return target in specmod.EXAMPLES


def crosscheck_job(job):
    """CPython cross-check of the semantic model on the sidecar's examples (pyvc/crosscheck.py)."""
    target, tier, seed = job
    try:
        from pyvc import native, spec as specmod, crosscheck
        from pyvc.verifier import Verifier
        native.load_sidecars(CONTRACTS)
        gen = specmod.EXAMPLES[target]
        adapter = specmod.ADAPTERS.get(target)
        func = adapter(REPO) if adapter else native.resolve_function(REPO, target)
        r = crosscheck.crosscheck_target(Verifier(REPO, CONTRACTS), target, gen(tier, random.Random(seed)), func,
                                         limit=16 if tier == "quick" else 80)
        r["target"] = target
        return r
    except Exception:
        return {"target": target, "crash": traceback.format_exc()[-800:]}


def callee_contracts(called, targets):
    """Contracts of repository functions used at call sites of this property's targets: discharged here, discharged by
    another property's check, or assumed (never discharged)."""
    import props
    mine = {t.split("#")[0] for t in targets}
    where = {}
    for pid, cfg in props.PROPS.items():
        for t in cfg.get("targets", []):
            where.setdefault(t.split("#")[0], []).append(pid)
    out = []
    full = {t for t in targets}
    where_full = {}
    for pid, cfg in props.PROPS.items():
        for t in cfg.get("targets", []):
            where_full.setdefault(t, []).append(pid)
    for q in sorted(called):
        if q in full or ("#" not in q and q in mine):
            continue
        if q in where_full or ("#" not in q and q in where):
            pids = where_full.get(q) or where[q]
            out.append("contract of %s used at call sites: discharged by the check of %s" % (q, ", ".join(sorted(set(pids)))))
        else:
            out.append("ASSUMED contract of %s used at call sites: not discharged by any check (outside the subset); "
                       "validated by the bounded runs of this property" % q)
    return out


def main(argv=None):
    ap = argparse.ArgumentParser()
    ap.add_argument("prop")
    ap.add_argument("--tier", default=os.environ.get("VERIF_TIER", "quick"), choices=["quick", "thorough"])
    ap.add_argument("--replay")
    a = ap.parse_args(argv)
    sys.path.insert(0, HERE)
    if a.replay:
        return replay_file(a.replay)
    seed = int(os.environ.get("VERIF_SEED", "0") or 0)
    t0 = time.time()
    import props
    cfg = props.PROPS[a.prop]
    pid = a.prop
    tier = a.tier
    known = json.load(open(os.path.join(HERE, "known_findings.json")))
    known_here = [k for k in known.get("findings", []) if k["property"] == pid]

    targets = list(cfg["targets"])
    jobs = [(t, tier) for t in targets]
    ctx = mp.get_context("fork")
    cc_targets = [t for t in targets if "#" not in t and not t.startswith("lemma:") and has_examples(t)]
    nsl = max(1, min(8, 16 // max(1, len(targets))))
    jobs = [(t, tier, k, nsl) for t in targets for k in range(nsl)]
    with ctx.Pool(min(16, max(1, len(jobs) + len(cc_targets)))) as pool:
        cc_async = pool.map_async(crosscheck_job, [(t, tier, seed) for t in cc_targets], chunksize=1)
        parts = pool.map(verify_target, jobs, chunksize=1)
        cc_results = cc_async.get()
    results = []
    for t in targets:
        mine = [p for p in parts if p["target"] == t]
        r = dict(mine[0])
        r["engine_error"] = next((p["engine_error"] for p in mine if p["engine_error"]), None)
        r["obligations"] = sorted((o for p in mine for o in p["obligations"]), key=lambda o: o.get("index", 0))
        r["failed"] = sorted((f for p in mine for f in p["failed"]), key=lambda o: o.get("index", 0))
        r["seconds"] = max(p["seconds"] for p in mine)
        r["trusted"] = sorted({x for p in mine for x in p.get("trusted", [])})
        r["called"] = sorted({x for p in mine for x in p.get("called", [])})
        if not r["engine_error"] and len(r["obligations"]) != mine[0].get("generated", len(r["obligations"])):
            r["engine_error"] = "CRASH slices discharged %d of %d obligations" % (len(r["obligations"]), mine[0].get("generated", -1))
        results.append(r)

    violations = []       # (text, replay_path, has_input)
    known_lines = []
    undecided = []
    broken = []
    obligations = discharged = 0
    solver_s = 0.0
    functions_under_contract, functions_proved = [], []
    per_obl = []
    trusted = set(cfg.get("trusted", []))
    called = set()
    replay_dir = os.path.join(HERE, "replays", pid)
    os.makedirs(replay_dir, exist_ok=True)
    for fn in os.listdir(replay_dir):
        os.unlink(os.path.join(replay_dir, fn))
    native_stats = {}

    def write_replay(name, rec):
        safe = re.sub(r"[^A-Za-z0-9_.\[\]-]+", "_", name)[:150]
        path = os.path.join("replays", pid, safe + ".json")
        with open(os.path.join(HERE, path), "w") as f:
            json.dump(rec, f, indent=1, default=str)
        return path

    def known_match(key, failure_text=""):
        for k in known_here:
            if re.search(k["match"], key):
                return k
        return None

    # CPython cross-check of the model: a contradiction means pyvc's model excludes what the real code does
    crosschecks = []
    for r in cc_results:
        if r.get("crash"):
            crosschecks.append({"target": r["target"], "note": "cross-check harness crashed (not counted): " + r["crash"][-200:]})
            continue
        crosschecks.append({"target": r["target"], "inputs": r["evaluated"], "model_determines_cpython_result": r["agrees"],
                            "model_consistent_with_cpython_result": r["consistent"], "outside_concrete_subset": r["skipped"],
                            "contradictions": len(r["contradictions"])})
        for c in r["contradictions"][:2]:
            broken.append("MODEL CONTRADICTS CPYTHON for %s on %s (CPython: %s): pyvc's semantic model is unsound here; nothing "
                          "proved about this function is believed" % (r["target"], json.dumps(c["input"])[:300], c["cpython"]))

    # native run-time contract check / witness pool, per function (also the vacuity witness)
    native_failures = {}
    for t in targets + list(cfg.get("native_only", [])):
        if t.startswith("lemma:"):
            continue
        try:
            ev, adm, fails, samples = native_examples(t, tier, seed)
        except Exception:
            broken.append("native harness of %s crashed: %s" % (t, traceback.format_exc()[-800:]))
            continue
        for inp, fl in fails:
            if fl.get("stage") == "ensures-eval":
                broken.append("contract of %s cannot be evaluated natively: %s / %s" % (t, fl.get("clause"), fl.get("error")))
        fails = [x for x in fails if x[1].get("stage") != "ensures-eval"]
        native_stats[t] = {"evaluations": ev, "admitted_by_requires": adm, "failures": len(fails), "samples": samples[:2]}
        native_failures[t] = fails

    for r in results:
        t = r["target"]
        if r["engine_error"]:
            if r["engine_error"].startswith("CRASH"):
                broken.append("%s: %s" % (t, r["engine_error"]))
                continue
            # outside the subset / unresolved contract: degrade to the bounded stand-in
            st = native_stats.get(t)
            if st and st["admitted_by_requires"] > 0:
                undecided.append("%s: degraded to bounded stand-in (%s): %d inputs" % (t, r["engine_error"], st["admitted_by_requires"]))
            elif cfg.get("bounded"):
                undecided.append("%s: degraded to the property's bounded stand-ins (%s)" % (t, r["engine_error"]))
            else:
                undecided.append("%s: %s; no bounded stand-in available" % (t, r["engine_error"]))
                broken.append("UNDECIDED " + t + ": " + r["engine_error"])
            functions_under_contract.append({"target": t, "degraded": True, "reason": r["engine_error"]})
            continue
        if r["canary"] != "ok" and not r["failed"]:
            broken.append("%s: %s" % (t, r["canary"]))
        if len(r["obligations"]) + r["trivial"] == 0:
            broken.append("%s: zero obligations generated" % t)
        n = len(r["obligations"])
        ok = sum(1 for o in r["obligations"] if o["status"] == "proved")
        obligations += n
        discharged += ok
        solver_s += sum(o["seconds"] for o in r["obligations"])
        per_obl.extend(r["obligations"])
        trusted.update(r.get("trusted", []))
        called.update(r.get("called", []))
        info = dict(r["source"] or {"qualname": t})
        info.update({"obligations": n, "discharged": ok, "trivially_true": r["trivial"], "vc_seconds": round(r["seconds"], 2)})
        if r.get("native_only_clauses"):
            info["clauses_NOT_discharged_checked_by_the_bounded_native_run_only"] = r["native_only_clauses"]
        functions_under_contract.append(info)
        if ok == n:
            functions_proved.append(t)
        for f in r["failed"]:
            if str(f.get("reason", "")).startswith("not pursued"):
                continue          # settled by the obligations reported before it; listed in the evidence only
            key = clause_key(f["name"])
            fails = native_failures.get(t) or []
            src_t = t
            if not fails and cfg.get("witness_from", {}).get(t):
                src_t = cfg["witness_from"][t]
                fails = native_failures.get(src_t) or []
            rec = {"property": pid, "replay_function": src_t, "function": t, "obligation": f["name"], "clause": f.get("note", ""),
                   "solver": "%s (%s) %s" % (f["status"], f["backend"], f.get("reason", "")), "input": None}
            if fails:
                inp, failure = fails[0]
                rec["input"] = inp
                rec["observed"] = failure
                k = known_match(key + " " + json.dumps(failure)[:300])
                if k:
                    known_lines.append("KNOWN-FINDING: property=%s %s" % (pid, k["text"]))
                    continue
                path = write_replay(f["name"], rec)
                violations.append(("VIOLATION property=%s replay=%s" % (pid, path), f["name"]))
            else:
                k = known_match(key)
                if k:
                    known_lines.append("KNOWN-FINDING: property=%s %s" % (pid, k["text"]))
                    continue
                rec["smt2"] = f.get("smt2", "")[:200000]
                path = write_replay(f["name"], rec)
                violations.append(("VIOLATION property=%s replay=%s no-failing-input-found" % (pid, path), f["name"]))

    # native failures not explained by a failed obligation are violations too (real failing input)
    reported = {v[1] for v in violations}
    for t, fails in native_failures.items():
        if not fails:
            continue
        if any(t.split(":")[1].split(".")[-1] in name for name in reported):
            continue
        inp, failure = fails[0]
        key = "%s:native:%s" % (t, failure.get("clause", ""))
        k = known_match(key + " " + json.dumps(failure)[:300])
        if k:
            known_lines.append("KNOWN-FINDING: property=%s %s" % (pid, k["text"]))
            continue
        rec = {"property": pid, "function": t, "obligation": "native-contract-check", "input": inp, "observed": failure}
        path = write_replay(t.replace(":", ".") + ".native", rec)
        violations.append(("VIOLATION property=%s replay=%s" % (pid, path), t))

    # bounded validations of assumed contracts and bounded stand-ins
    bounded = []
    for spec in cfg.get("bounded", []):
        modname, fn = spec["run"].split(":")
        try:
            mod = importlib.import_module(modname)
            res = getattr(mod, fn)(REPO, tier, seed)
        except Exception as e:
            tb = traceback.extract_tb(e.__traceback__)
            if tb and tb[-1].filename.startswith(REPO) or any(f.filename.startswith(REPO) for f in tb[-4:]):
                # the real code raised on an input the stand-in considers admissible
                res = {"bound": "aborted", "evaluations": 0, "distinct": 0, "failures": [{
                    "key": "raised-" + type(e).__name__, "input": None,
                    "observed": "the code under check raised %s: %s" % (type(e).__name__, str(e)[:200]),
                    "traceback": traceback.format_exc()[-1500:]}]}
            else:
                broken.append("bounded check %s crashed: %s" % (spec["run"], traceback.format_exc()[-1200:]))
                continue
        bounded.append({"what": spec["what"], "bound": res.get("bound"), "evaluations": res.get("evaluations"),
                        "distinct": res.get("distinct"), "exhaustive": res.get("exhaustive", False),
                        "failures": len(res.get("failures", [])), "samples": res.get("samples", [])[:2]})
        for fl in res.get("failures", [])[:5]:
            key = "bounded:%s:%s" % (spec["run"], fl.get("key", ""))
            k = known_match(key)
            if k:
                known_lines.append("KNOWN-FINDING: property=%s %s" % (pid, k["text"]))
                continue
            rec = dict(fl)
            rec.update({"property": pid, "kind": "bounded", "validator_module": modname, "function": spec["run"]})
            path = write_replay("bounded." + fn + "." + str(fl.get("key", "x")), rec)
            violations.append(("VIOLATION property=%s replay=%s" % (pid, path), spec["run"]))

    # structural obligations (decided on the AST, no solver)
    for spec in cfg.get("structural", []):
        modname, fn = spec.split(":")
        try:
            for o in getattr(importlib.import_module(modname), fn)(REPO):
                obligations += 1
                per_obl.append(o)
                if o["status"] == "proved":
                    discharged += 1
                else:
                    rec = {"property": pid, "function": o["name"], "obligation": o["name"], "clause": o.get("note", ""),
                           "solver": "AST inspection: the required lexical shape is absent", "input": None}
                    path = write_replay(o["name"], rec)
                    violations.append(("VIOLATION property=%s replay=%s no-failing-input-found" % (pid, path), o["name"]))
        except Exception:
            broken.append("structural check %s crashed: %s" % (spec, traceback.format_exc()[-1200:]))

    # Lean lemmas
    lean = []
    for lf in cfg.get("lean", []) + (cfg.get("lean_thorough", []) if tier == "thorough" else []):
        import subprocess
        t1 = time.time()
        p = subprocess.run(["lean", os.path.join(HERE, "lean", lf)], capture_output=True, text=True, timeout=3000)
        okl = p.returncode == 0 and "error" not in p.stdout.lower() and "sorry" not in (p.stdout + p.stderr).lower()
        lean.append({"file": "lean/" + lf, "ok": okl, "seconds": round(time.time() - t1, 1), "output": (p.stdout + p.stderr)[-1500:]})
        obligations += 1
        if okl:
            discharged += 1
        else:
            rec = {"property": pid, "function": "lean/" + lf, "obligation": "lean-lemma", "input": None, "solver": (p.stdout + p.stderr)[-4000:]}
            path = write_replay("lean." + lf, rec)
            violations.append(("VIOLATION property=%s replay=%s no-failing-input-found" % (pid, path), lf))

    wall = time.time() - t0
    for line in sorted(set(known_lines)):
        print(line)
    evidence = {
        "property_id": pid, "tier": tier, "seed": seed, "level": "proof",
        "coverage": {
            "obligations": obligations, "discharged": discharged,
            "checker_cmd": "./check %s --tier %s  (pyvc: AST of /repo -> VCs -> z3 %s, cvc5 fallback%s)" % (
                pid, tier, _z3v(), "; lean 4 + Mathlib" if cfg.get("lean") else ""),
            "trusted_base": sorted(trusted) + callee_contracts(called, targets),
            "functions_under_contract": functions_under_contract,
            "functions_all_obligations_discharged": functions_proved,
            "lemmas": [t for t in targets if t.startswith("lemma:")],
            "lean": lean,
            "bounded_standins_and_validations": bounded,
            "native_contract_runs": native_stats,
            "cpython_crosscheck_of_the_model": crosschecks,
            "float_mode": cfg.get("float_mode", "R: floats treated as mathematical reals"),
            "solver_seconds": round(solver_s, 2),
            "discharged_by_backend": backend_summary(per_obl),
            "degraded_or_undecided": undecided,
            "known_findings_printed": sorted(set(known_lines)),
            "samples": [o for o in per_obl[:3]] + [o for o in per_obl if o["status"] != "proved"][:5],
            "explanation": cfg.get("explanation", ""),
        },
        "assumptions": sorted(set(cfg.get("assumptions", [])) | {
            "Python semantics as modelled by pyvc (DESIGN.md section 3.2)",
            "numpy int64 does not overflow; floats are mathematical reals unless float_mode says otherwise"}),
        "wall_s": round(wall, 2),
        "violations": len(violations),
    }
    if not targets:
        # a property that is not claimed (no function under contract): the auxiliary bounded run is reported as what it
        # is -- an exploration -- never as a proof
        ev_total = sum(int(b.get("evaluations") or 0) for b in bounded)
        dist = sum(int(b.get("distinct") or b.get("evaluations") or 0) for b in bounded)
        evidence["level"] = "exploration"
        cov = evidence["coverage"]
        for k in ("obligations", "discharged"):
            cov.pop(k, None)
        cov.update({"evaluations": ev_total, "distinct_nontrivial": dist,
                    "rule": "NOT a proof and not claimed in MANIFEST.json (listed under not_applicable): the bounded run(s) named in "
                            "bounded_standins_and_validations; a case is one generated input of such a run, distinct by construction",
                    "samples": [smp for b in bounded for smp in (b.get("samples") or [])][:3] or [b.get("what") for b in bounded][:1]})
    os.makedirs(os.path.join(HERE, "evidence"), exist_ok=True)
    with open(os.path.join(HERE, "evidence", pid + ".json"), "w") as f:
        json.dump(evidence, f, indent=1, default=str)
    seen = set()
    for line, _ in violations:
        if line not in seen:
            print(line)
            seen.add(line)
    for b in broken:
        print("CHECKER-ERROR:", b[:1500])
    if violations:
        return 1
    if broken:
        return 2 if all(b.startswith("UNDECIDED") for b in broken) else 3
    ndeg = sum(1 for f in functions_under_contract if f.get("degraded"))
    for f in functions_under_contract:
        if f.get("degraded"):
            # not an alarm: the function is no longer decided by proof on this tree (its contract does not resolve or it left
            # the subset) and only the bounded stand-ins stand behind the property for it
            print("DEGRADED: property=%s function=%s decided by the bounded stand-in only (%s)" % (pid, f["target"], str(f.get("reason"))[:200]))
    print("OK property=%s tier=%s obligations=%d discharged=%d functions=%d%s wall=%.1fs" % (
        pid, tier, obligations, discharged, len(functions_under_contract), (" degraded=%d" % ndeg) if ndeg else "", wall))
    return 0


def _z3v():
    try:
        import z3
        return z3.get_version_string()
    except Exception:
        return "?"


if __name__ == "__main__":
    sys.exit(main())
