"""Value model of the pyvc symbolic executor.

Scalars are Python concretes (int, bool, Fraction, str, None) or z3 terms of sort
Int / Real / Bool.  Containers are *immutable values* (mutation in the executed
code is a functional update written back to the variable that holds the container;
aliasing of mutated containers is detected and rejected, see engine.py).

  Seq    (ndarray, list, tuple of dynamic length, generator): length term + element function
  DictV  domain predicate + value function (+ an unspecified-but-fixed iteration order)
  SetV   membership predicate
  Opaque ghost objects (cursor, connection, spline ...) with named fields
"""
import itertools
from fractions import Fraction

import z3

I = z3.IntSort()
R = z3.RealSort()
B = z3.BoolSort()

_counter = itertools.count()


class EngineError(Exception):
    """The code left the supported subset, or a contract does not resolve.  Never a violation."""


def uid(prefix):
    return "%s!%d" % (prefix, next(_counter))


BOUND = set()      # names of constants that are (or will be) bound by a quantifier


def bvar(name):
    c = z3.Int(uid(name))
    BOUND.add(c.decl().name())
    return c


def mentions_bound(t):
    seen = set()
    todo = [t]
    while todo:
        x = todo.pop()
        if x.get_id() in seen:
            continue
        seen.add(x.get_id())
        if z3.is_var(x) or z3.is_quantifier(x):
            return True
        if z3.is_app(x):
            if x.num_args() == 0 and x.decl().name() in BOUND:
                return True
            todo.extend(x.children())
    return False


def is_z3(v):
    return isinstance(v, z3.ExprRef)


def is_scalar(v):
    return is_z3(v) or isinstance(v, (bool, int, Fraction, float))


def to_z3(v):
    if is_z3(v):
        return v
    if isinstance(v, bool):
        return z3.BoolVal(v)
    if isinstance(v, int):
        return z3.IntVal(v)
    if isinstance(v, Fraction):
        return z3.RealVal(str(v))
    if isinstance(v, float):
        return z3.RealVal(str(Fraction(repr(v))))
    raise EngineError("cannot convert %r to an SMT term" % (v,))


def sort_of(v):
    if is_z3(v):
        s = v.sort()
        if s == I:
            return "int"
        if s == R:
            return "real"
        if s == B:
            return "bool"
        raise EngineError("unexpected sort %s" % s)
    if isinstance(v, bool):
        return "bool"
    if isinstance(v, int):
        return "int"
    if isinstance(v, (Fraction, float)):
        return "real"
    return None


def as_int(v):
    """bool -> int (numpy/Python semantics), int stays."""
    k = sort_of(v)
    if k == "int":
        return v
    if k == "bool":
        if is_z3(v):
            return z3.If(v, z3.IntVal(1), z3.IntVal(0))
        return int(v)
    raise EngineError("expected an integer, got %r" % (v,))


def as_real(v):
    k = sort_of(v)
    if k == "real":
        if isinstance(v, float):
            return Fraction(repr(v))
        return v
    v = as_int(v)
    if is_z3(v):
        return z3.ToReal(v)
    return Fraction(v)


def as_bool(v):
    k = sort_of(v)
    if k == "bool":
        return v
    if k == "int":
        return (v != 0) if not is_z3(v) else (v != z3.IntVal(0))
    if k == "real":
        return (v != 0) if not is_z3(v) else (v != z3.RealVal(0))
    raise EngineError("no truth value for %r" % (v,))


def zand(*xs):
    out = []
    for x in xs:
        if x is True:
            continue
        if x is False:
            return False
        out.append(to_z3(x))
    if not out:
        return True
    if len(out) == 1:
        return out[0]
    return z3.And(*out)


def zor(*xs):
    out = []
    for x in xs:
        if x is False:
            continue
        if x is True:
            return True
        out.append(to_z3(x))
    if not out:
        return False
    if len(out) == 1:
        return out[0]
    return z3.Or(*out)


def znot(x):
    if isinstance(x, bool):
        return not x
    return z3.Not(x)


def zimp(a, b):
    if a is True:
        return b
    if a is False:
        return True
    if b is True:
        return True
    return z3.Implies(to_z3(a), to_z3(b))


def zite(c, a, b):
    """If-then-else on values of any shape."""
    if c is True:
        return a
    if c is False:
        return b
    if isinstance(a, tuple) and isinstance(b, tuple) and len(a) == len(b):
        return tuple(zite(c, x, y) for x, y in zip(a, b))
    if isinstance(a, Seq) and isinstance(b, Seq):
        # an empty concrete side has no elements: the other side's element function serves both
        if b.concrete_len() and b.n == 0:
            return Seq(zite(c, a.n, 0), a._at, a.kind)
        if a.concrete_len() and a.n == 0:
            return Seq(zite(c, 0, b.n), b._at, b.kind)
        return Seq(zite(c, a.n, b.n), lambda i, a=a, b=b: zite(c, a.at(i), b.at(i)), a.kind)
    if isinstance(a, DictV) and isinstance(b, DictV):
        return DictV(lambda k: zite(c, a.dom(k), b.dom(k)), lambda k: zite(c, a.val(k), b.val(k)),
                     zite(c, a.size, b.size), a.kty if a.kty != "any" else b.kty, a.vty if a.vty != "any" else b.vty)
    if isinstance(a, SetV) and isinstance(b, SetV):
        return SetV(lambda k: zite(c, a.has(k), b.has(k)), zite(c, a.size, b.size), a.kty if a.kty != "any" else b.kty)
    if a is None and b is None:
        return None
    if isinstance(a, str) and isinstance(b, str) and a == b:
        return a
    if isinstance(a, str) != isinstance(b, str) and not isinstance(a, (Seq, DictV, SetV, tuple, Opaque)) \
            and not isinstance(b, (Seq, DictV, SetV, tuple, Opaque)):
        # a text on one side, a number on the other (a table whose header row holds texts): kept as a guarded pair
        return Opaque("mixed", cond=c, a=a, b=b)
    if is_scalar(a) and is_scalar(b):
        ka, kb = sort_of(a), sort_of(b)
        if ka != kb:
            if "real" in (ka, kb):
                a, b = as_real(a), as_real(b)
            else:
                a, b = as_int(a), as_int(b)
        return z3.If(c, to_z3(a), to_z3(b))
    raise EngineError("cannot merge values %r / %r" % (a, b))


class Seq:
    """A finite sequence: length `n` (int or z3 Int) and element function `at`."""

    __slots__ = ("n", "_at", "kind", "_ety", "items", "width", "prefix_of")

    def __init__(self, n, at, kind="list", items=None):
        self.width = None   # zip(*rows): `width` columns when rows is non-empty, none otherwise
        self.n = n
        self._at = at
        self.kind = kind  # 'array' | 'list' | 'tuple' | 'gen'
        self._ety = None
        self.items = items  # python list when fully concrete in length
        self.prefix_of = None

    @staticmethod
    def of(items, kind="list"):
        items = list(items)

        def at(i, items=items):
            if isinstance(i, int):
                if not items:
                    raise EngineError("element of an empty sequence")
                # out-of-range reads only occur in dead branches of an if-then-else; the
                # range obligation has been emitted where the access is live
                return items[min(max(i, 0), len(items) - 1)] if not (-len(items) <= i < len(items)) else items[i]
            if not items:
                raise EngineError("element of an empty sequence")
            r = items[-1]
            for k in range(len(items) - 2, -1, -1):
                r = zite(i == k, items[k], r)
            return r

        return Seq(len(items), at, kind, items=items)

    def at(self, i):
        return self._at(i)

    def concrete_len(self):
        return isinstance(self.n, int)

    def ety(self):
        if self._ety is None:
            if self.concrete_len() and self.n == 0:
                self._ety = "any"
            else:
                probe = 0 if self.concrete_len() else z3.Int(uid("probe"))
                self._ety = type_of(self.at(probe))
        return self._ety

    def with_kind(self, kind):
        return Seq(self.n, self._at, kind, items=self.items)


class DictV:
    __slots__ = ("dom", "val", "size", "kty", "vty", "_keys", "default")

    def __init__(self, dom, val, size, kty, vty, keys=None, default=None):
        self.dom = dom      # key value -> Bool
        self.val = val      # key value -> Value
        self.size = size    # Int term / int
        self.kty = kty
        self.vty = vty
        self._keys = keys   # cached iteration order (Seq) or None
        self.default = default   # collections.defaultdict(list): the value a missing key reads as (an empty list)


class SetV:
    __slots__ = ("has", "size", "kty", "_elems")

    def __init__(self, has, size, kty):
        self.has = has
        self.size = size
        self.kty = kty
        self._elems = None      # cached iteration order: one enumeration per set object


class Opaque:
    """Ghost / library object with named fields (immutable; updates create a new one)."""

    def __init__(self, kind, **fields):
        self.kind = kind
        self.fields = dict(fields)

    def get(self, k, default=None):
        return self.fields.get(k, default)

    def updated(self, **kw):
        f = dict(self.fields)
        f.update(kw)
        return Opaque(self.kind, **f)

    def __repr__(self):
        return "<%s %s>" % (self.kind, sorted(self.fields))


# ----------------------------------------------------------------------------- types

def parse_type(s):
    """'seq[tuple[int,int]]' -> ('seq', ('tuple', ('int','int')))"""
    s = s.strip()
    if s.startswith("const:"):
        return ("str", s[6:])
    if "[" not in s:
        return s
    head, rest = s.split("[", 1)
    assert rest.endswith("]"), s
    rest = rest[:-1]
    parts, depth, cur = [], 0, ""
    for ch in rest:
        if ch == "[":
            depth += 1
        elif ch == "]":
            depth -= 1
        if ch == "," and depth == 0:
            parts.append(cur)
            cur = ""
        else:
            cur += ch
    parts.append(cur)
    parts = [parse_type(p) for p in parts]
    head = head.strip()
    if head in ("seq", "array", "list"):
        return ("seq:" + ("array" if head == "array" else "list"), parts[0])
    if head == "tuple":
        return ("tuple", tuple(parts))
    if head == "dict":
        return ("dict", parts[0], parts[1])
    if head == "set":
        return ("set", parts[0])
    raise EngineError("bad type %r" % s)


def type_of(v):
    k = sort_of(v)
    if k:
        return k
    if v is None:
        return "none"
    if isinstance(v, str):
        return ("str", v)
    if isinstance(v, tuple):
        return ("tuple", tuple(type_of(x) for x in v))
    if isinstance(v, Seq):
        return ("seq:" + ("array" if v.kind == "array" else "list"), v.ety())
    if isinstance(v, DictV):
        return ("dict", v.kty, v.vty)
    if isinstance(v, SetV):
        return ("set", v.kty)
    if isinstance(v, Opaque):
        return ("opaque", v)
    return ("py", v)


_SORT = {"int": I, "real": R, "bool": B}


def fresh(ty, name, idx=(), facts=None):
    """A fresh symbolic value of type `ty`.  Inside containers, scalars are uninterpreted
    functions of the index path `idx`.  `facts` collects well-formedness assumptions
    (lengths >= 0)."""
    if isinstance(ty, str):
        if ty in _SORT:
            if not idx:
                return z3.Const(uid(name), _SORT[ty])
            f = z3.Function(uid(name), *([I] * len(idx) + [_SORT[ty]]))
            return f(*idx)
        if ty == "none":
            return None
        if ty == "fn":
            return Opaque("fn", uf=z3.Function(uid(name), R, R))
        if ty == "fn2":
            return Opaque("fn2", uf=z3.Function(uid(name), I, I, R))
        if ty == "any":
            raise EngineError("cannot create a fresh value of unknown element type (%s)" % name)
        raise EngineError("unknown type %r" % (ty,))
    tag = ty[0]
    if tag == "str":
        return ty[1]
    if tag == "py":
        return ty[1]
    if tag == "opaque":
        return ty[1]
    if tag == "tuple":
        return tuple(fresh(t, "%s_%d" % (name, k), idx, facts) for k, t in enumerate(ty[1]))
    if tag.startswith("seq:"):
        kind = tag[4:]
        return fresh_seq(ty[1], name, idx, facts, kind)
    if tag == "dict":
        return fresh_dict(ty[1], ty[2], name, idx, facts)
    if tag == "set":
        return fresh_set(ty[1], name, idx, facts)
    raise EngineError("unknown type %r" % (ty,))


class _Memo:
    """Element functions must be *functions*: the same index gives the same term."""

    def __init__(self, mk):
        self.mk = mk
        self.fs = None


def fresh_seq(ety, name, idx=(), facts=None, kind="list", n=None):
    if n is None:
        if idx:
            lf = z3.Function(uid(name + "_len"), *([I] * len(idx) + [I]))
            n = lf(*idx)
            if facts is not None:
                facts.append(("len>=0", lf, len(idx)))
        else:
            n = z3.Int(uid(name + "_len"))
            if facts is not None:
                facts.append(n >= 0)
    tmpl = _Template(ety, name, len(idx) + 1)

    def at(i, idx=idx, tmpl=tmpl):
        return tmpl.instantiate(tuple(idx) + (to_z3(i),))

    s = Seq(n, at, kind)
    s._ety = ety
    return s


NONNEG_SINK = []   # (function, arity) of nested length / size functions created by templates


WF_SINK = []       # (membership function, size function, depth, key arity)


def drain_nonneg():
    """Axioms forall idx. f(idx) >= 0 for every nested length / size function created so far,
    and member(idx, k) -> size(idx) >= 1 for every fresh dict / set."""
    out = []
    while WF_SINK:
        hasf, sizef, depth, kd = WF_SINK.pop()
        xs = [bvar("x") for _ in range(depth + kd)]
        out.append(z3.ForAll(xs, z3.Implies(hasf(*xs), sizef(*xs[:depth]) >= 1), patterns=[hasf(*xs)]))
    while NONNEG_SINK:
        f, ar = NONNEG_SINK.pop()
        xs = [bvar("x") for _ in range(ar)]
        if ar == 0:
            out.append(f() >= 0)
        else:
            out.append(z3.ForAll(xs, f(*xs) >= 0, patterns=[f(*xs)]))
    return out


class _Template:
    """Builds, once, the uninterpreted functions for a value of type `ty` living under
    `depth` integer indices, and instantiates them at concrete index tuples."""

    def __init__(self, ty, name, depth):
        self.ty = ty
        self.depth = depth
        self.name = name
        self.parts = None
        self._build()

    def _build(self):
        ty, depth, name = self.ty, self.depth, self.name
        if isinstance(ty, str):
            if ty in _SORT:
                self.f = z3.Function(uid(name), *([I] * depth + [_SORT[ty]]))
            elif ty in ("none",):
                self.f = None
            else:
                raise EngineError("cannot template type %r" % (ty,))
            return
        tag = ty[0]
        if tag in ("str", "py", "opaque"):
            return
        if tag == "tuple":
            self.parts = [_Template(t, "%s_%d" % (name, k), depth) for k, t in enumerate(ty[1])]
        elif tag.startswith("seq:"):
            self.lenf = z3.Function(uid(name + "_len"), *([I] * depth + [I]))
            NONNEG_SINK.append((self.lenf, depth))
            self.elem = _Template(ty[1], name + "_e", depth + 1)
        elif tag == "dict":
            kd = _key_arity(ty[1])
            self.domf = z3.Function(uid(name + "_dom"), *([I] * (depth + kd) + [B]))
            self.sizef = z3.Function(uid(name + "_size"), *([I] * depth + [I]))
            NONNEG_SINK.append((self.sizef, depth))
            WF_SINK.append((self.domf, self.sizef, depth, kd))
            self.valt = _Template(ty[2], name + "_v", depth + kd)
        elif tag == "set":
            kd = _key_arity(ty[1])
            self.hasf = z3.Function(uid(name + "_has"), *([I] * (depth + kd) + [B]))
            self.sizef = z3.Function(uid(name + "_size"), *([I] * depth + [I]))
            NONNEG_SINK.append((self.sizef, depth))
            WF_SINK.append((self.hasf, self.sizef, depth, kd))
        else:
            raise EngineError("cannot template type %r" % (ty,))

    def instantiate(self, idx):
        ty = self.ty
        if isinstance(ty, str):
            if ty == "none":
                return None
            return self.f(*idx)
        tag = ty[0]
        if tag in ("str", "py", "opaque"):
            return ty[1]
        if tag == "tuple":
            return tuple(p.instantiate(idx) for p in self.parts)
        if tag.startswith("seq:"):
            elem = self.elem
            s = Seq(self.lenf(*idx), lambda i, idx=idx, elem=elem: elem.instantiate(tuple(idx) + (to_z3(i),)), tag[4:])
            s._ety = ty[1]
            return s
        if tag == "dict":
            domf, valt = self.domf, self.valt
            return DictV(lambda k, idx=idx: domf(*(tuple(idx) + key_terms(k))),
                         lambda k, idx=idx: valt.instantiate(tuple(idx) + key_terms(k)),
                         self.sizef(*idx), ty[1], ty[2])
        if tag == "set":
            hasf = self.hasf
            return SetV(lambda k, idx=idx: hasf(*(tuple(idx) + key_terms(k))), self.sizef(*idx), ty[1])
        raise EngineError("cannot instantiate %r" % (ty,))


def _key_arity(kty):
    if kty == "int":
        return 1
    if isinstance(kty, tuple) and kty[0] == "tuple" and all(t == "int" for t in kty[1]):
        return len(kty[1])
    raise EngineError("unsupported key type %r (int or tuple of int only)" % (kty,))


def key_terms(k):
    if isinstance(k, tuple):
        return tuple(to_z3(as_int(x)) for x in k)
    return (to_z3(as_int(k)),)


def fresh_dict(kty, vty, name, idx=(), facts=None):
    t = _Template(("dict", kty, vty), name, len(idx))
    d = t.instantiate(tuple(idx))
    if facts is not None and not idx:
        facts.append(d.size >= 0)
    return d


def fresh_set(kty, name, idx=(), facts=None):
    t = _Template(("set", kty), name, len(idx))
    s = t.instantiate(tuple(idx))
    if facts is not None and not idx:
        facts.append(s.size >= 0)
    return s


def values_equal(a, b):
    """Python `==` on scalar-like values -> bool / z3 Bool."""
    if isinstance(a, Opaque) and a.kind == "mixed":
        return zite(a.get("cond"), values_equal(a.get("a"), b), values_equal(a.get("b"), b))
    if isinstance(b, Opaque) and b.kind == "mixed":
        return values_equal(b, a)
    if a is None or b is None:
        return a is None and b is None
    if isinstance(a, str) or isinstance(b, str):
        return isinstance(a, str) and isinstance(b, str) and a == b
    if isinstance(a, tuple) and isinstance(b, tuple):
        if len(a) != len(b):
            return False
        return zand(*[values_equal(x, y) for x, y in zip(a, b)])
    if is_scalar(a) and is_scalar(b):
        ka, kb = sort_of(a), sort_of(b)
        if not is_z3(a) and not is_z3(b):
            return as_real(a) == as_real(b) if "real" in (ka, kb) else (as_int(a) == as_int(b))
        if ka == kb:
            return to_z3(a) == to_z3(b)
        if "real" in (ka, kb):
            return to_z3(as_real(a)) == to_z3(as_real(b))
        return to_z3(as_int(a)) == to_z3(as_int(b))
    if (isinstance(a, tuple) and is_scalar(b)) or (isinstance(b, tuple) and is_scalar(a)):
        return False
    raise EngineError("unsupported equality %r == %r" % (a, b))
