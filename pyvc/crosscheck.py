"""CPython cross-check of the semantic model: run the symbolic executor on CONCRETE inputs (the sidecar's native
examples), with loops over sequences of concrete length unrolled instead of summarised by their invariants, and
compare what the model says the function returns with what CPython returns on the real code.

  agrees        for one exit of the model, path condition /\\ result != CPython's is UNSAT and the path condition is
                satisfiable with the CPython result: the model determines the result and it is CPython's
  consistent    the model does not determine the result (abstract library contract, loop kept symbolic): nothing learnt
  CONTRADICTS   for every exit, path condition /\\ result == CPython's is UNSAT: the model excludes what the real code
                does -- an unsound axiom in pyvc's library models or executor.  Reported as a checker error (exit 3).

Floats: the model computes with exact rationals ("floats as reals"), CPython rounds: real results are compared
with a relative tolerance of 1e-9."""
import itertools
from fractions import Fraction

import z3

from .values import Seq, DictV, SetV, EngineError, to_z3, as_real, as_int, is_z3, zand, zor, znot, parse_type


def to_value(x, ty):
    """CPython value -> engine value of declared type `ty` (parsed)."""
    import numpy as np
    if isinstance(ty, str):
        if ty == "int":
            return int(x)
        if ty == "bool":
            return bool(x)
        if ty == "real":
            return Fraction(float(x))
        if ty == "none":
            return None
        raise EngineError("crosscheck: type %r" % (ty,))
    if ty[0].startswith("seq:"):
        kind = "array" if ty[0] == "seq:array" else "list"
        items = [to_value(e, ty[1]) for e in list(x)]
        if not items:
            from .values import fresh_seq
            return fresh_seq(ty[1], "empty", (), None, kind, n=0)     # keeps the element type (dtype) of an empty array
        return Seq.of(items, kind)
    if ty[0] == "tuple":
        return tuple(to_value(e, t) for e, t in zip(x, ty[1]))
    if ty[0] == "dict":
        items = [(to_value(k, ty[1]), to_value(v, ty[2])) for k, v in x.items()]
        from .values import values_equal, zite

        def dom(k, items=items):
            return zor(*[values_equal(k, kk) for kk, _ in items]) if items else False

        def val(k, items=items):
            out = items[-1][1] if items else None
            for kk, vv in reversed(items[:-1]):
                out = zite(values_equal(k, kk), vv, out)
            return out
        d = DictV(dom, val, len(items), _tyname(ty[1]), _tyname(ty[2]))
        d._keys = Seq.of([k for k, _ in items], "list")
        return d
    if ty[0] == "set":
        items = [to_value(k, ty[1]) for k in x]
        from .values import values_equal
        return SetV(lambda k, items=items: zor(*[values_equal(k, kk) for kk in items]) if items else False, len(items), _tyname(ty[1]))
    raise EngineError("crosscheck: type %r" % (ty,))


def _tyname(t):
    return t


def equal_formula(v, x):
    """Engine value v equals CPython value x (z3 Bool or Python bool)."""
    import numpy as np
    if x is None:
        return v is None
    if isinstance(x, (bool, np.bool_)):
        return to_z3(v) == bool(x) if is_z3(v) else bool(v) == bool(x)
    if isinstance(x, (int, np.integer)):
        return to_z3(as_int(v)) == int(x) if is_z3(v) else as_int(v) == int(x)
    if isinstance(x, (float, np.floating)):
        xv = Fraction(float(x))
        tol = Fraction(1, 10**9) * (1 + abs(xv))
        if is_z3(v):
            zv = to_z3(as_real(v))
            return z3.And(zv - z3.RealVal(str(xv)) <= z3.RealVal(str(tol)), z3.RealVal(str(xv)) - zv <= z3.RealVal(str(tol)))
        return abs(Fraction(as_real(v)) - xv) <= tol
    if isinstance(x, dict):
        if not isinstance(v, DictV):
            return False
        parts = [to_z3(v.size) == len(x) if is_z3(v.size) else v.size == len(x)]
        for k, xv in x.items():
            kk = tuple(int(t) for t in k) if isinstance(k, tuple) else int(k)
            parts.append(v.dom(kk))
            parts.append(equal_formula(v.val(kk), xv))
        return zand(*parts)
    if isinstance(x, (set, frozenset)):
        if not isinstance(v, SetV):
            return False
        return zand(to_z3(v.size) == len(x) if is_z3(v.size) else v.size == len(x), *[v.has(int(k)) for k in x])
    if isinstance(x, (list, tuple, np.ndarray)):
        xs = list(x)
        if isinstance(v, tuple):
            return len(v) == len(xs) and zand(*[equal_formula(a, b) for a, b in zip(v, xs)])
        if isinstance(v, Seq):
            n = v.n
            parts = [to_z3(n) == len(xs) if is_z3(n) else n == len(xs)]
            parts += [equal_formula(v.at(i), xs[i]) for i in range(len(xs))]
            return zand(*parts)
        return False
    raise EngineError("crosscheck: cannot compare with %r" % (type(x),))


def _check(hyps, extra, ms=2500):
    s = z3.Solver()
    s.set("timeout", ms)
    s.add(*hyps)
    e = extra if not isinstance(extra, bool) else z3.BoolVal(extra)
    s.add(e)
    return str(s.check())


def crosscheck_target(verifier, target, examples, func, limit=24):
    """Returns dict(evaluated=, agrees=, consistent=, contradictions=[...])."""
    from .engine import Exec
    c = verifier.registry.contracts[target]
    modname, qual = target.split("#")[0].split(":")
    mod = verifier.module(modname)
    out = {"evaluated": 0, "agrees": 0, "consistent": 0, "skipped": 0, "contradictions": []}
    exs = list(itertools.islice(examples, 4000))
    if len(exs) > limit:
        stepk = len(exs) / float(limit)
        exs = [exs[int(i * stepk)] for i in range(limit)]
    for kwargs in exs:
        # a function whose result the model never determines (abstract callee contracts) or that lies outside the concrete
        # subset tells nothing more after a few inputs: stop early
        if out["agrees"] == 0 and out["evaluated"] + out["skipped"] >= 5 and not out["contradictions"]:
            break
        try:
            native_exc, native = None, None
            try:
                import copy
                native = func(**copy.deepcopy(kwargs))
                if hasattr(native, "__next__"):
                    native = list(native)
            except Exception as e:            # the real code raises: compare exception types
                native_exc = type(e).__name__
            ex = Exec(verifier, mod, qual, c)
            verifier.nonlinear = c.options.get("nonlinear", "uf")
            verifier.float_mode = c.options.get("float_mode", "R")
            ex.concrete_inputs = {p: to_value(kwargs[p], parse_type(t) if isinstance(t, str) else t)
                                  for p, t in c.arg_types.items() if p in kwargs and not str(t).startswith("const:")}
            ex.unroll_concrete = True
            try:
                ex.run()
            except EngineError:
                out["skipped"] += 1
                continue
            if ex.entry_infeasible():
                out["skipped"] += 1           # the example does not satisfy `requires`
                continue
            out["evaluated"] += 1
            verdict = "contradicts"
            for s in ex.exits:
                if native_exc is not None:
                    if s.status == "raise" and s.value == native_exc and _check(s.pc, True) != "unsat":
                        verdict = "agrees"
                        break
                    continue
                if s.status != "return":
                    continue
                val = s.value if not ex.is_generator else s.locals.get("__yielded__")
                eq = equal_formula(val, native)
                if eq is False:
                    continue
                r = _check(s.pc, eq)
                if r == "unsat":
                    continue
                neq = znot(eq) if not isinstance(eq, bool) else (not eq)
                verdict = "agrees" if (neq is False or _check(s.pc, neq) == "unsat") else "consistent"
                if verdict == "agrees":
                    break
            if verdict == "agrees":
                out["agrees"] += 1
            elif verdict == "consistent":
                out["consistent"] += 1
            else:
                from .native import jsonable
                out["contradictions"].append({"input": jsonable(kwargs), "cpython": native_exc or repr(native)[:300]})
        except EngineError as e:
            out["skipped"] += 1
    return out
