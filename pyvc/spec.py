"""Native reading of the contract vocabulary.

Sidecar contract files are Python: pyvc *parses* them (SMT reading) and the replay /
bounded machinery *imports* them (native reading on concrete values).  This module gives
the vocabulary its native meaning.
"""
REGISTRY = {}
SPECS = {}
EXAMPLES = {}    # target -> generator(tier, rng) of keyword-argument dicts for the real function
ADAPTERS = {}    # target -> f(repo_root) returning a callable taking those keyword arguments


def examples(target):
    def deco(fn):
        EXAMPLES[target] = fn
        return fn
    return deco


def adapter(target):
    def deco(fn):
        ADAPTERS[target] = fn
        return fn
    return deco


def contract(target, args=None, returns=None, **kw):
    def deco(fn):
        REGISTRY[target] = fn
        return fn
    return deco


def spec(fn):
    SPECS[fn.__name__] = fn
    return fn


def lemma(*a, **kw):
    def deco(fn):
        return fn
    if len(a) == 1 and callable(a[0]) and not kw:
        return a[0]
    return deco


def forall(lo, hi, f, trigger=None):
    return all(bool(f(i)) for i in range(int(lo), int(hi)))


def exists(lo, hi, f, trigger=None):
    return any(bool(f(i)) for i in range(int(lo), int(hi)))


UNIVERSE = list(range(-2, 12))


def forall_int(f):
    import itertools
    k = f.__code__.co_argcount
    return all(bool(f(*t)) for t in itertools.product(UNIVERSE, repeat=k))


def exists_int(f):
    import itertools
    k = f.__code__.co_argcount
    return any(bool(f(*t)) for t in itertools.product(UNIVERSE, repeat=k))


def implies(a, b):
    return (not a) or bool(b)


def iff(a, b):
    return bool(a) == bool(b)


# clause markers (only meaningful to the parser)
def requires(*a, **k): pass
def ensures(*a, **k): pass
def raises(*a, **k): pass
def modifies(*a, **k): pass
def loop(*a, **k): pass
def ghost(*a, **k): pass
def uses(*a, **k): pass
def may_raise(*a, **k): pass
def checked_natively(*a, **k): pass


def cut(x):
    return bool(x)


def prefix_sums(seq):
    import numpy as np
    return np.cumsum(np.asarray(list(seq)))


def ceil_int(x):
    import math
    return math.ceil(x)


def floor_int(x):
    import math
    return math.floor(x)


NATIVE_GHOSTS = {}


def native_ghosts(target):
    """Native computation of a contract's ghost results from (arguments, result)."""
    def deco(fn):
        NATIVE_GHOSTS[target] = fn
        return fn
    return deco


def close(a, b, rel=1e-9, abs_=1e-9):
    import math
    return math.isclose(float(a), float(b), rel_tol=rel, abs_tol=abs_)


def uf_real(name, *args):
    """Native meaning of the named real functions used in contracts."""
    import math
    if name == "pow":
        return float(args[0]) ** float(args[1])
    if name == "exp":
        return math.exp(args[0])
    if name == "log":
        return math.log(args[0])
    if name == "normcdf":
        import scipy.stats
        return float(scipy.stats.norm.cdf(args[0], loc=0, scale=args[1]))
    raise NotImplementedError("uf_real(%s) has no native reading" % name)


SQL = {}


def sql(text, **kw):
    def deco(fn):
        SQL[" ".join(text.split())] = (fn, kw)
        return fn
    return deco


def db_sealed():
    return False


def db_rows(table):
    return []


def uf_int(name, *args):
    raise NotImplementedError("uf_int(%s) has no native reading" % name)


def is_integer(x):
    return float(x).is_integer()


def dict_put(d, k, v):
    r = dict(d)
    r[k] = v
    return r


def loop_seq(k):
    """Native meaning is not needed (used in ghost code of proofs only)."""
    raise NotImplementedError


def seq_mean(x):
    import numpy as np
    return float(np.mean(np.asarray(list(x), dtype=float)))


def lstsq_solution(A, b):
    """Native meaning: the solution numpy.linalg.solve gives for the normal equations of (A, b)."""
    import numpy as np
    A = np.asarray(A, dtype=float)
    b = np.asarray(b, dtype=float)
    return np.linalg.solve(A.T @ A, A.T @ b)


def key_position(d, k):
    """Native meaning: the index of key k in the iteration order of d."""
    return list(d).index(k)


def sort_position(sorted_list, p):
    """Native meaning is not needed (used in ghost code of proofs only)."""
    raise NotImplementedError


def dumped(k):
    raise NotImplementedError("proof-only vocabulary")


def dump_count():
    raise NotImplementedError("proof-only vocabulary")
