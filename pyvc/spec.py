"""Native reading of the contract vocabulary.

Sidecar contract files are Python: pyvc *parses* them (SMT reading) and the replay /
bounded machinery *imports* them (native reading on concrete values).  This module gives
the vocabulary its native meaning.
"""
REGISTRY = {}
SPECS = {}


def contract(target, args=None, returns=None, **kw):
    def deco(fn):
        REGISTRY[target] = fn
        return fn
    return deco


def spec(fn):
    SPECS[fn.__name__] = fn
    return fn


def lemma(*a, **kw):
    def deco(fn):
        return fn
    if len(a) == 1 and callable(a[0]) and not kw:
        return a[0]
    return deco


def forall(lo, hi, f, trigger=None):
    return all(bool(f(i)) for i in range(int(lo), int(hi)))


def exists(lo, hi, f, trigger=None):
    return any(bool(f(i)) for i in range(int(lo), int(hi)))


def implies(a, b):
    return (not a) or bool(b)


def iff(a, b):
    return bool(a) == bool(b)


# clause markers (only meaningful to the parser)
def requires(*a, **k): pass
def ensures(*a, **k): pass
def raises(*a, **k): pass
def modifies(*a, **k): pass
def loop(*a, **k): pass
def ghost(*a, **k): pass
def uses(*a, **k): pass
