"""Run the real workflow steps of /repo on small synthetic datasets (used by bounded stand-ins,
witness search and replay).  Everything goes through the real functions: text files ->
load_data -> classify_intervals -> populate_zeta_grid -> rise / recession."""
import importlib
import io
import sqlite3
import sys
import datetime as dt

E0 = 1577836800  # 2020-01-01 00:00:00 UTC


def mods(repo):
    if repo not in sys.path:
        sys.path.insert(0, repo)
    names = ["load", "classify", "zeta_grid", "rise", "recession", "fit_offsets", "regrid", "set_curvature"]
    return {n: importlib.import_module("spowtd." + n) for n in names}


def fmt(epoch_s):
    return (dt.datetime(1970, 1, 1) + dt.timedelta(seconds=epoch_s)).strftime("%Y-%m-%d %H:%M:%S")


def textfile(rows, header):
    return io.StringIO(header + "\n" + "".join("%s,%r\n" % (fmt(t), float(v)) for t, v in rows))


def load(repo, rain, et, wl, tz="UTC", connection=None):
    """rain / et / wl: lists of (epoch seconds, value).  Returns an in-memory connection."""
    m = mods(repo)
    con = connection or sqlite3.connect(":memory:")
    m["load"].load_data(con, textfile(rain, "datetime,p"), textfile(et, "datetime,et"), textfile(wl, "datetime,z"), tz)
    return con


def dataset(step, rains, heads, present=None, et=0.1, t0=E0):
    """A dataset on a uniform grid: rains[i] on [t0+i*step, t0+(i+1)*step), heads[i] measured at
    t0+i*step; `present[i]` False removes that water-level sample (making gaps)."""
    n = len(rains)
    rain = [(t0 + i * step, rains[i]) for i in range(n)]
    ets = [(t0 + i * step, et) for i in range(-1, n + 2)]
    wl = [(t0 + i * step, heads[i]) for i in range(len(heads)) if present is None or present[i]]
    return rain, ets, wl


def table(con, sql, params=()):
    return con.execute(sql, params).fetchall()
