"""Loader for sidecar contract files (/verif/contracts/*.py).

A contract is a Python function decorated with @contract("pkg.module:qualname",
args={...}, returns="..."); its body is a list of clauses

    requires(expr)            precondition
    ensures(expr)             postcondition (may mention `result` and old(name))
    checked_natively(expr)    postcondition checked by the bounded native run only (not discharged, not assumed by callers)
    raises(Exc, when=expr)    the function raises Exc exactly when `when` (over the entry state)
    modifies("a", "b")        parameters the function may mutate (frame)
    loop(k, inv=lambda it: expr, decreases=lambda: expr)      k-th loop of the function
    uses("lemma_name", ...)   lemmas whose statements are assumed at entry (proved separately)

@spec functions are pure definitions usable in clauses; @lemma functions are ghost code with
their own requires / ensures, proved by the same engine.
"""
import ast
import os

from .values import EngineError


class Contract:
    def __init__(self, target, fnode, registry, source_file):
        self.target = target
        self.fnode = fnode
        self.registry = registry
        self.source_file = source_file
        self.arg_types = {}
        self.returns = None
        self.requires = []
        self.ensures = []
        self.raises = []
        self.modifies = []
        self.loops = {}
        self.uses = []
        self.setup = None
        self.self_fields = None
        self.ghost_before = {}
        self.options = {}

    def lookup_spec(self, name):
        return self.registry.specs.get(name)

    def make_self(self, ex, st, facts, fields_spec=None, cls=None, name="self"):
        """A symbolic instance: fields as declared by the sidecar (self_fields); a field of type
        'obj[pkg.mod:Class]' is a nested instance whose fields come from that class's contracts."""
        from .values import Opaque, fresh, parse_type
        fields = {}
        spec = self.self_fields if fields_spec is None else fields_spec
        for k, ty in (spec or {}).items():
            if isinstance(ty, str) and ty.startswith("obj["):
                target = ty[4:-1]
                sub = self.registry.class_fields(target)
                fields[k] = self.make_self(ex, st, facts, sub, target, name + "_" + k)
            else:
                fields[k] = fresh(parse_type(ty), name + "_" + k, (), facts)
        if cls is None:
            cls = "%s:%s" % (ex.module.modname, ex.cls)
        return Opaque("self", __class__=cls, **fields)


class Registry:
    def __init__(self):
        self.contracts = {}
        self.specs = {}
        self.lemmas = {}
        self.sql = {}
        self.tables = {}     # ghost database: table -> row type of the rows a step inserts
        self.files = []

    def class_fields(self, cls_target):
        """Declared fields of pkg.mod:Class = the self_fields of any of its method contracts."""
        out = {}
        for t, c in self.contracts.items():
            if t.startswith(cls_target + ".") and c.self_fields:
                out.update(c.self_fields)
        return out

    def load_dir(self, d):
        for fn in sorted(os.listdir(d)):
            if fn.endswith(".py") and not fn.startswith("_"):
                self.load_file(os.path.join(d, fn))

    def load_file(self, path):
        from .engine import SpecFunction
        with open(path) as f:
            src = f.read()
        tree = ast.parse(src, path)
        self.files.append(path)
        self._consts = {}
        for node in tree.body:
            if isinstance(node, ast.Assign) and len(node.targets) == 1 and isinstance(node.targets[0], ast.Name):
                try:
                    self._consts[node.targets[0].id] = ast.literal_eval(node.value)
                    if node.targets[0].id == "TABLES":
                        self.tables.update(self._consts["TABLES"])
                except Exception:
                    pass
        for node in tree.body:
            if not isinstance(node, ast.FunctionDef):
                continue
            for dec in node.decorator_list:
                dname = dec.func.id if isinstance(dec, ast.Call) and isinstance(dec.func, ast.Name) else (dec.id if isinstance(dec, ast.Name) else None)
                if dname == "sql":
                    c = self._parse_contract(None, node, path)
                    text = ast.literal_eval(dec.args[0])
                    opts = {}
                    for k in dec.keywords:
                        opts[k.arg] = k.value if k.arg in ("row", "rows_of") else ast.literal_eval(k.value)
                    c.target = "sql:" + node.name
                    c.sql_text = " ".join(text.split())
                    c.options = opts
                    self.sql[c.sql_text] = c
                    continue
                if dname == "spec":
                    self.specs[node.name] = SpecFunction(node.name, node, "spec")
                elif dname == "contract":
                    c = self._parse_contract(dec, node, path)
                    self.contracts[c.target] = c
                    import copy as _copy
                    for g in getattr(c, "ghosts", []) or []:
                        pass
                elif dname == "lemma":
                    c = self._parse_contract(dec if isinstance(dec, ast.Call) else None, node, path, lemma=True)
                    self.lemmas[node.name] = c
                    self.specs[node.name] = SpecFunction(node.name, node, "lemma")

    def _parse_contract(self, dec, node, path, lemma=False):
        target = None
        kw = {}
        if dec is not None:
            if dec.args:
                target = ast.literal_eval(dec.args[0])
            consts = getattr(self, "_consts", {})

            class Sub(ast.NodeTransformer):
                def visit_Name(self, n):
                    if n.id in consts:
                        return ast.copy_location(ast.Constant(consts[n.id]), n)
                    return n
            for k in dec.keywords:
                kw[k.arg] = ast.literal_eval(Sub().visit(k.value))
        if lemma:
            target = "lemma:" + node.name
        c = Contract(target, node, self, path)
        c.arg_types = dict(kw.get("args", {}))
        c.returns = kw.get("returns")
        c.self_fields = kw.get("self_fields")
        c.ghost_results = kw.get("ghost_results", {})
        c.options = kw
        body = []
        for stmt in node.body:
            if isinstance(stmt, ast.Expr) and isinstance(stmt.value, ast.Constant):
                continue
            if isinstance(stmt, ast.Expr) and isinstance(stmt.value, ast.Call) and isinstance(stmt.value.func, ast.Name):
                call = stmt.value
                name = call.func.id
                if name == "requires":
                    c.requires.append(call.args[0])
                    continue
                if name == "ensures":
                    c.ensures.append(call.args[0])
                    continue
                if name == "checked_natively":
                    # a postcondition that is NOT discharged deductively: evaluated by the bounded native run-time
                    # check only, never assumed at call sites, never counted among the obligations
                    c.native_ensures = getattr(c, "native_ensures", []) + [call.args[0]]
                    continue
                if name == "raises":
                    exc = call.args[0].id
                    when = None
                    for k in call.keywords:
                        if k.arg == "when":
                            when = k.value
                    c.raises.append({"exc": exc, "when": when if when is not None else ast.Constant(True)})
                    continue
                if name == "may_raise":
                    c.may_raise = getattr(c, "may_raise", []) + [call.args[0].id]
                    continue
                if name == "modifies":
                    c.modifies += [ast.literal_eval(a) for a in call.args]
                    continue
                if name == "uses":
                    c.uses += [ast.literal_eval(a) for a in call.args]
                    continue
                if name == "ghost":
                    g = {}
                    for kwd in call.keywords:
                        g[kwd.arg] = ast.literal_eval(kwd.value) if kwd.arg in ("after", "before", "let") else kwd.value
                    if not hasattr(c, "ghosts"):
                        c.ghosts = []
                    c.ghosts.append(g)
                    continue
                if name == "loop":
                    k = ast.literal_eval(call.args[0])
                    spec = {"ordinal": k, "invariant": None, "decreases": None}
                    for kwd in call.keywords:
                        if kwd.arg == "inv":
                            spec["invariant"] = kwd.value
                        elif kwd.arg == "decreases":
                            spec["decreases"] = kwd.value
                        elif kwd.arg == "ghost_modifies":
                            spec["ghost_modifies"] = ast.literal_eval(kwd.value)
                        elif kwd.arg == "types":
                            spec["types"] = ast.literal_eval(kwd.value)
                    if not isinstance(spec["invariant"], ast.Lambda):
                        raise EngineError("%s: loop(%d) needs inv=lambda ..." % (path, k))
                    c.loops[k] = spec
                    continue
            body.append(stmt)
        c.body = body   # lemma proof body (ghost code), empty for ordinary contracts
        return c
