"""Structural obligations decided on the AST of /repo (no solver): the lexical shape that C20's
lemma over contracts relies on.  Each obligation is a named yes/no fact about the current source."""
import ast
import os

STEPS = {   # CLI task -> (module alias expected in user_interface, function)
    "classify": "classify_intervals",
    "set-zeta-grid": "populate_zeta_grid",
    "recession": "find_recession_offsets",
    "rise": "find_rise_offsets",
    "set-curvature": "set_curvature",
}


def _calls(node):
    return [n for n in ast.walk(node) if isinstance(n, ast.Call)]


def _name(f):
    if isinstance(f, ast.Attribute):
        return f.attr
    if isinstance(f, ast.Name):
        return f.id
    return None


def main_obligations(repo):
    path = os.path.join(repo, "spowtd", "user_interface.py")
    tree = ast.parse(open(path).read(), path)
    fns = {n.name: n for n in tree.body if isinstance(n, ast.FunctionDef)}
    main = fns["main"]
    out = []

    def ob(name, ok, note=""):
        out.append({"name": "user_interface.main:" + name, "status": "proved" if ok else "refuted",
                    "backend": "AST inspection", "seconds": 0.0, "note": note})

    # O3: nothing in main can swallow an exception or manage the transaction by hand
    ob("no-try-in-main", not any(isinstance(n, ast.Try) for n in ast.walk(main)),
       "a handler between a write and the `with` exit could swallow an exception")
    bad = [_name(c.func) for c in _calls(main) if _name(c.func) in ("commit", "rollback", "executescript", "close")]
    ob("no-manual-transaction-control-in-main", not bad, "calls: %r" % bad)
    ob("no-isolation-level-assignment", not any(
        isinstance(n, ast.Attribute) and n.attr == "isolation_level" for n in ast.walk(tree)), "")
    # O2: each step is called lexically inside one `with sqlite3.connect(args.db) as connection:` and receives it
    found = {}
    for w in [n for n in ast.walk(main) if isinstance(n, ast.With)]:
        item = w.items[0]
        ce = item.context_expr
        is_connect = (isinstance(ce, ast.Call) and _name(ce.func) == "connect" and len(ce.args) == 1
                      and ast.unparse(ce.args[0]) == "args.db" and isinstance(item.optional_vars, ast.Name))
        if not is_connect:
            continue
        var = item.optional_vars.id
        for c in _calls(w):
            nm = _name(c.func)
            kw = {k.arg: ast.unparse(k.value) for k in c.keywords}
            if kw.get("connection") == var or (c.args and ast.unparse(c.args[0]) == var):
                found.setdefault(nm, []).append((w, len(w.body)))
    for task, fn in STEPS.items():
        # set-curvature goes through the local wrapper set_curvature(connection=, args=)
        names = [fn] if fn != "set_curvature" else ["set_curvature"]
        hits = [h for n in names for h in found.get(n, [])]
        ob("step-%s-inside-one-with-connect" % task, len(hits) == 1,
           "%d call(s) of %s receiving the `with` connection" % (len(hits), fn))
        ob("step-%s-is-the-only-statement-of-its-with" % task, bool(hits) and all(k == 1 for _, k in hits),
           "the with-block holds exactly the step call, so its normal exit commits exactly the step")
    # every call of a step function in main is one of those found above (no call outside a with)
    for task, fn in STEPS.items():
        allcalls = [c for c in _calls(main) if _name(c.func) == fn]
        inside = len(found.get(fn, []))
        ob("step-%s-never-called-outside-with" % task, len(allcalls) == inside, "%d calls, %d inside" % (len(allcalls), inside))
    # the set_curvature wrapper passes its connection on
    sc = fns.get("set_curvature")
    if sc is not None:
        calls = [c for c in _calls(sc) if _name(c.func) == "set_curvature"]
        ok = len(calls) == 1 and (ast.unparse(calls[0].args[0]) == "connection" if calls[0].args else
                                  {k.arg: ast.unparse(k.value) for k in calls[0].keywords}.get("connection") == "connection")
        ob("set_curvature-wrapper-passes-connection", ok, "")
    return out


def step_obligations(repo):
    """No step function opens its own connection, closes / rolls back the one it is given, or runs a script."""
    out = []
    for mod in ("classify", "zeta_grid", "set_curvature", "rise", "recession"):
        path = os.path.join(repo, "spowtd", mod + ".py")
        tree = ast.parse(open(path).read(), path)
        names = [_name(c.func) for c in _calls(tree)]
        for banned in ("connect", "rollback", "executescript"):
            out.append({"name": "%s:no-%s" % (mod, banned), "status": "proved" if banned not in names else "refuted",
                        "backend": "AST inspection", "seconds": 0.0, "note": ""})
        texts = [n.value for n in ast.walk(tree) if isinstance(n, ast.Constant) and isinstance(n.value, str)]
        ctl = [t for t in texts if any(k in t.upper().split() for k in ("BEGIN", "COMMIT", "ROLLBACK", "SAVEPOINT", "RELEASE"))
               and ("SELECT" in t.upper() or "INSERT" in t.upper() or len(t.split()) <= 3) and "\n" not in t.strip()[:0]]
        ctl = [t for t in ctl if t.strip().upper().split()[0] in ("BEGIN", "COMMIT", "ROLLBACK", "SAVEPOINT", "RELEASE")]
        out.append({"name": "%s:no-transaction-control-sql" % mod, "status": "proved" if not ctl else "refuted",
                    "backend": "AST inspection", "seconds": 0.0, "note": repr(ctl[:2])})
    return out
