"""Structural obligations decided on the AST of /repo (no solver): the lexical shape that C20's
lemma over contracts relies on.  Each obligation is a named yes/no fact about the current source."""
import ast
import os
import re

STEPS = {   # CLI task -> (module alias expected in user_interface, function)
    "classify": "classify_intervals",
    "set-zeta-grid": "populate_zeta_grid",
    "recession": "find_recession_offsets",
    "rise": "find_rise_offsets",
    "set-curvature": "set_curvature",
}


def _calls(node):
    return [n for n in ast.walk(node) if isinstance(n, ast.Call)]


def _name(f):
    if isinstance(f, ast.Attribute):
        return f.attr
    if isinstance(f, ast.Name):
        return f.id
    return None


def main_obligations(repo):
    path = os.path.join(repo, "spowtd", "user_interface.py")
    tree = ast.parse(open(path).read(), path)
    fns = {n.name: n for n in tree.body if isinstance(n, ast.FunctionDef)}
    main = fns["main"]
    out = []

    def ob(name, ok, note=""):
        out.append({"name": "user_interface.main:" + name, "status": "proved" if ok else "refuted",
                    "backend": "AST inspection", "seconds": 0.0, "note": note})

    # O3: nothing in main can swallow an exception or manage the transaction by hand
    ob("no-try-in-main", not any(isinstance(n, ast.Try) for n in ast.walk(main)),
       "a handler between a write and the `with` exit could swallow an exception")
    bad = [_name(c.func) for c in _calls(main) if _name(c.func) in ("commit", "rollback", "executescript", "close")]
    ob("no-manual-transaction-control-in-main", not bad, "calls: %r" % bad)
    ob("no-isolation-level-assignment", not any(
        isinstance(n, ast.Attribute) and n.attr == "isolation_level" for n in ast.walk(tree)), "")
    # O2: each step is called lexically inside one `with sqlite3.connect(args.db) as connection:` and receives it
    found = {}
    for w in [n for n in ast.walk(main) if isinstance(n, ast.With)]:
        item = w.items[0]
        ce = item.context_expr
        is_connect = (isinstance(ce, ast.Call) and _name(ce.func) == "connect" and len(ce.args) == 1
                      and ast.unparse(ce.args[0]) == "args.db" and isinstance(item.optional_vars, ast.Name))
        if not is_connect:
            continue
        var = item.optional_vars.id
        for c in _calls(w):
            nm = _name(c.func)
            kw = {k.arg: ast.unparse(k.value) for k in c.keywords}
            if kw.get("connection") == var or (c.args and ast.unparse(c.args[0]) == var):
                found.setdefault(nm, []).append((w, len(w.body)))
    for task, fn in STEPS.items():
        # set-curvature goes through the local wrapper set_curvature(connection=, args=)
        names = [fn] if fn != "set_curvature" else ["set_curvature"]
        hits = [h for n in names for h in found.get(n, [])]
        ob("step-%s-inside-one-with-connect" % task, len(hits) == 1,
           "%d call(s) of %s receiving the `with` connection" % (len(hits), fn))
        ob("step-%s-is-the-only-statement-of-its-with" % task, bool(hits) and all(k == 1 for _, k in hits),
           "the with-block holds exactly the step call, so its normal exit commits exactly the step")
    # every call of a step function in main is one of those found above (no call outside a with)
    for task, fn in STEPS.items():
        allcalls = [c for c in _calls(main) if _name(c.func) == fn]
        inside = len(found.get(fn, []))
        ob("step-%s-never-called-outside-with" % task, len(allcalls) == inside, "%d calls, %d inside" % (len(allcalls), inside))
    # the set_curvature wrapper passes its connection on
    sc = fns.get("set_curvature")
    if sc is not None:
        calls = [c for c in _calls(sc) if _name(c.func) == "set_curvature"]
        ok = len(calls) == 1 and (ast.unparse(calls[0].args[0]) == "connection" if calls[0].args else
                                  {k.arg: ast.unparse(k.value) for k in calls[0].keywords}.get("connection") == "connection")
        ob("set_curvature-wrapper-passes-connection", ok, "")
    return out


def step_obligations(repo):
    """No step function opens its own connection, closes / rolls back the one it is given, or runs a script."""
    out = []
    for mod in ("classify", "zeta_grid", "set_curvature", "rise", "recession"):
        path = os.path.join(repo, "spowtd", mod + ".py")
        tree = ast.parse(open(path).read(), path)
        names = [_name(c.func) for c in _calls(tree)]
        for banned in ("connect", "rollback", "executescript"):
            out.append({"name": "%s:no-%s" % (mod, banned), "status": "proved" if banned not in names else "refuted",
                        "backend": "AST inspection", "seconds": 0.0, "note": ""})
        texts = [n.value for n in ast.walk(tree) if isinstance(n, ast.Constant) and isinstance(n.value, str)]
        ctl = [t for t in texts if any(k in t.upper().split() for k in ("BEGIN", "COMMIT", "ROLLBACK", "SAVEPOINT", "RELEASE"))
               and ("SELECT" in t.upper() or "INSERT" in t.upper() or len(t.split()) <= 3) and "\n" not in t.strip()[:0]]
        ctl = [t for t in ctl if t.strip().upper().split()[0] in ("BEGIN", "COMMIT", "ROLLBACK", "SAVEPOINT", "RELEASE")]
        out.append({"name": "%s:no-transaction-control-sql" % mod, "status": "proved" if not ctl else "refuted",
                    "backend": "AST inspection", "seconds": 0.0, "note": repr(ctl[:2])})
        # the assumed contract "SQLite commits atomically, a killed process leaves the previous content" is SQLite's
        # guarantee for its default rollback journal on disk with synchronous writes: a step that reconfigures the
        # journal (memory / off), the syncing or the schema protection leaves that assumption
        cfg = [t.strip()[:60] for t in texts
               if re.search(r"\bPRAGMA\s+(\w+\.)?(journal_mode|synchronous|locking_mode|writable_schema|journal_size_limit|"
                            r"cache_spill|temp_store|ignore_check_constraints|defer_foreign_keys|foreign_keys\s*=\s*(0|off|false))\b",
                            t, re.I) or re.search(r"^\s*(ATTACH|DETACH|VACUUM)\b", t, re.I)]
        out.append({"name": "%s:no-journal-or-durability-pragma" % mod, "status": "proved" if not cfg else "refuted",
                    "backend": "AST inspection", "seconds": 0.0, "note": repr(cfg[:2])})
    return out


# ----------------------------------------------------------------------------- frames of the steps (C20, commutation)

INDEPENDENT = [("classify", "set-zeta-grid"), ("classify", "set-curvature"), ("set-zeta-grid", "set-curvature"), ("rise", "recession")]
STEP_MODULES = {"classify": "classify", "set-zeta-grid": "zeta_grid", "set-curvature": "set_curvature", "rise": "rise", "recession": "recession"}


def _schema(repo):
    """Tables and views of schema.sql; a view stands for the tables it is defined over (transitively)."""
    import re
    text = open(os.path.join(repo, "spowtd", "schema.sql")).read()
    text = re.sub(r"--[^\n]*", " ", text)
    tables, views = set(), {}
    for stmt in text.split(";"):
        m = re.match(r"\s*CREATE\s+(?:TEMP\s+|TEMPORARY\s+)?TABLE\s+(?:IF\s+NOT\s+EXISTS\s+)?(\w+)", stmt, re.I)
        if m:
            tables.add(m.group(1).lower())
        m = re.match(r"\s*CREATE\s+(?:TEMP\s+|TEMPORARY\s+)?VIEW\s+(?:IF\s+NOT\s+EXISTS\s+)?(\w+)(.*)", stmt, re.I | re.S)
        if m:
            views[m.group(1).lower()] = set(w.lower() for w in re.findall(r"\w+", m.group(2)))
    changed = True
    while changed:
        changed = False
        for v, words in views.items():
            for w in list(words):
                if w in views and not views[w] <= words:
                    words |= views[w]
                    changed = True
    return tables, {v: words & tables for v, words in views.items()}


def _module_sql(repo, mod, seen=None):
    """Every SQL text a step module (and the spowtd modules it imports) can issue; None for a non-literal one."""
    seen = seen if seen is not None else set()
    if mod in seen:
        return []
    seen.add(mod)
    path = os.path.join(repo, "spowtd", mod + ".py")
    tree = ast.parse(open(path).read(), path)
    out = []
    for c in _calls(tree):
        if _name(c.func) in ("execute", "executemany", "executescript") and c.args:
            a = c.args[0]
            out.append((mod, c.lineno, a.value if isinstance(a, ast.Constant) and isinstance(a.value, str) else None))
    for n in ast.walk(tree):
        names = []
        if isinstance(n, ast.ImportFrom) and (n.module or "").startswith("spowtd"):
            names = [(n.module + "." + a.name) for a in n.names] + [n.module]
        elif isinstance(n, ast.Import):
            names = [a.name for a in n.names if a.name.startswith("spowtd.")]
        for nm in names:
            leaf = nm.split(".")[-1]
            if os.path.exists(os.path.join(repo, "spowtd", leaf + ".py")):
                out += _module_sql(repo, leaf, seen)
    return out


def _frames(repo, mod):
    import re
    tables, views = _schema(repo)
    reads, writes, opaque = set(), set(), []
    for m, line, text in _module_sql(repo, mod):
        if text is None:
            opaque.append("%s:L%d" % (m, line))
            continue
        t = re.sub(r"--[^\n]*", " ", text)
        t = re.sub(r"'[^']*'", " ", t)
        for w in re.findall(r"\w+", t):
            w = w.lower()
            if w in tables:
                reads.add(w)
            elif w in views:
                reads |= views[w]
        for m2 in re.finditer(r"\b(?:INSERT(?:\s+OR\s+\w+)?\s+INTO|REPLACE\s+INTO|UPDATE(?:\s+OR\s+\w+)?|DELETE\s+FROM|DROP\s+TABLE(?:\s+IF\s+EXISTS)?|"
                              r"ALTER\s+TABLE|CREATE\s+(?:TEMP\s+|TEMPORARY\s+)?TABLE(?:\s+IF\s+NOT\s+EXISTS)?)\s+(\w+)", t, re.I):
            writes.add(m2.group(1).lower())
        if re.search(r"\b(PRAGMA|ATTACH|VACUUM)\b", t, re.I):
            opaque.append("%s:L%d (%s)" % (m, line, t.split()[0]))
    return reads, writes, opaque


def frame_obligations(repo):
    """Bernstein conditions for the pairs of steps that C20 calls independent: neither step writes a table that
    the other reads or writes.  Frames are extracted mechanically from the SQL texts in the step's module and the
    spowtd modules it imports (every identifier naming a table, or a view over tables, counts as a read: an
    over-approximation); with disjoint frames and each step a function of what it reads, the two orders give the
    same final tables, and a rolled-back attempt in between changes nothing (atomicity part of C20)."""
    out = []

    def ob(name, ok, note):
        out.append({"name": "frames:" + name, "status": "proved" if ok else "refuted", "backend": "AST + SQL text inspection",
                    "seconds": 0.0, "note": note})
    fr = {}
    for step, mod in STEP_MODULES.items():
        fr[step] = _frames(repo, mod)
        r, w, opaque = fr[step]
        ob("%s-sql-texts-are-literals" % step, not opaque, "statements whose frame cannot be read off: %r" % opaque)
        ob("%s-writes-something" % step, bool(w), "writes %s" % sorted(w))
    for a, b in INDEPENDENT:
        ra, wa, _ = fr[a]
        rb, wb, _ = fr[b]
        ob("%s-does-not-write-what-%s-reads-or-writes" % (a, b), not (wa & (rb | wb)), "overlap %s" % sorted(wa & (rb | wb)))
        ob("%s-does-not-write-what-%s-reads-or-writes" % (b, a), not (wb & (ra | wa)), "overlap %s" % sorted(wb & (ra | wa)))
    return out


def schema_obligations(repo):
    """schema.sql consists of CREATE TABLE / VIEW / INDEX statements (and PRAGMAs) only: running it on a database
    without tables yields exactly the schema's tables, all empty (what the model of executescript in load_data assumes)."""
    import re
    text = open(os.path.join(repo, "spowtd", "schema.sql")).read()
    text = re.sub(r"--[^\n]*", " ", text)
    stmts = [t.strip() for t in text.split(";") if t.strip()]
    bad = [t.split("\n")[0][:60] for t in stmts if not re.match(r"(CREATE\s+(TABLE|VIEW|(UNIQUE\s+)?INDEX)|PRAGMA)\b", t, re.I)]
    return [{"name": "schema:only-create-table-view-index-pragma", "status": "proved" if stmts and not bad else "refuted",
             "backend": "SQL text inspection", "seconds": 0.0, "note": "%d statements; other: %r" % (len(stmts), bad[:3])}]
