"""pyvc — verification-condition generator for a subset of Python.

Reads a function from the *current* source under /repo (ast), symbolically executes
that AST against a sidecar contract, and emits one SMT obligation per safety condition,
precondition of a callee, assertion, loop-invariant establishment / preservation and
postcondition.  Nothing of the function is copied by hand.

Dropped by the extraction (and nothing else): docstrings, comments, LOG.* calls
(arguments are not evaluated: they are pure formatting of already computed values),
`del name`, the message operand of assert / raise.
"""
import ast
import copy
import hashlib
import os
from fractions import Fraction

import z3

from .values import (EngineError, Seq, DictV, SetV, Opaque, I, R, B, uid, is_z3, is_scalar, to_z3,
                     sort_of, as_int, as_real, as_bool, zand, zor, znot, zimp, zite, type_of, fresh,
                     fresh_seq, fresh_dict, fresh_set, parse_type, values_equal, key_terms, bvar, mentions_bound)

UNROLL_LIMIT = 8


class Obl:
    __slots__ = ("name", "hyps", "goal", "kind", "line", "fn", "note")

    def __init__(self, name, hyps, goal, kind, line, fn, note=""):
        self.name, self.hyps, self.goal, self.kind, self.line, self.fn, self.note = name, hyps, goal, kind, line, fn, note


class State:
    def __init__(self):
        self.locals = {}
        self.pc = []
        self.status = "run"      # run | return | raise | break | continue
        self.value = None        # return value, or exception type name
        self.ghost = {}
        self.aliases = []        # list of sets of names sharing one mutable container
        self.pending = []        # (cond, exception name) raised by callees inside the current statement
        self.temps = []          # conditions temporarily assumed (short-circuit operands, binders)

    def fork(self):
        s = State()
        s.locals = dict(self.locals)
        s.pc = list(self.pc)
        s.status = self.status
        s.value = self.value
        s.ghost = dict(self.ghost)
        s.aliases = [set(a) for a in self.aliases]
        s.pending = list(self.pending)
        s.temps = list(self.temps)
        return s

    def push(self, cond):
        """Temporarily assume `cond`; returns a token for pop().  Facts appended meanwhile stay."""
        c = to_z3(cond)
        self.pc.append(c)
        self.temps.append(c)
        return c

    def pop(self, token):
        for k in range(len(self.pc) - 1, -1, -1):
            if self.pc[k] is token:
                del self.pc[k]
                break
        for k in range(len(self.temps) - 1, -1, -1):
            if self.temps[k] is token:
                del self.temps[k]
                break

    def assume(self, *facts):
        from .values import NONNEG_SINK, WF_SINK, drain_nonneg
        if NONNEG_SINK or WF_SINK:
            self.pc.extend(drain_nonneg())
        from .norm import normalize
        for f in facts:
            if f is True:
                continue
            f = to_z3(f)
            if z3.is_quantifier(f) or z3.is_and(f):
                self.pc.extend(normalize(f))
            else:
                self.pc.append(f)


class Builtin:
    def __init__(self, name):
        self.name = name

    def __repr__(self):
        return "<builtin %s>" % self.name


class BoundMethod:
    def __init__(self, obj, name, base_node):
        self.obj, self.name, self.base_node = obj, name, base_node


class Closure:
    def __init__(self, node, defaults, env=None):
        self.node = node            # FunctionDef or Lambda
        self.defaults = defaults    # evaluated default values (by parameter name)
        self.env = env or {}        # enclosing-scope values at definition (used where the calling frame lacks the name)


class RepoFunction:
    def __init__(self, module, name, node=None, cls=None, receiver=None):
        self.module, self.name, self.node, self.cls, self.receiver = module, name, node, cls, receiver

    @property
    def qualname(self):
        return "%s:%s%s" % (self.module, (self.cls + ".") if self.cls else "", self.name)


class ModuleRef:
    def __init__(self, name):
        self.name = name


class SpecFunction:
    def __init__(self, name, node, kind="spec"):
        self.name, self.node, self.kind = name, node, kind


class MaybeNone:
    """Result of fetchone(): `present` -> `value`, else None."""

    def __init__(self, present, value):
        self.present, self.value = present, value


# ----------------------------------------------------------------------------- module loading

class RepoModule:
    def __init__(self, repo_root, modname):
        self.modname = modname
        self.path = os.path.join(repo_root, *modname.split(".")) + ".py"
        with open(self.path, "rt") as f:
            self.source = f.read()
        self.tree = ast.parse(self.source, self.path)
        self.functions = {}
        self.imports = {}      # local name -> canonical dotted name
        self.constants = {}
        for node in self.tree.body:
            if isinstance(node, ast.FunctionDef):
                self.functions[node.name] = (node, None)
            elif isinstance(node, ast.ClassDef):
                for sub in node.body:
                    if isinstance(sub, ast.FunctionDef):
                        self.functions["%s.%s" % (node.name, sub.name)] = (sub, node.name)
            elif isinstance(node, ast.Import):
                for a in node.names:
                    self.imports[a.asname or a.name.split(".")[0]] = a.name if a.asname else a.name.split(".")[0]
            elif isinstance(node, ast.ImportFrom):
                for a in node.names:
                    self.imports[a.asname or a.name] = "%s.%s" % (node.module, a.name)
            elif isinstance(node, ast.Assign) and len(node.targets) == 1 and isinstance(node.targets[0], ast.Name):
                self.constants[node.targets[0].id] = node.value

    def function_source(self, qual):
        node, _ = self.functions[qual]
        seg = ast.get_source_segment(self.source, node)
        return {"qualname": "%s:%s" % (self.modname, qual), "file": self.path,
                "lines": [node.lineno, node.end_lineno],
                "sha256": hashlib.sha256(seg.encode()).hexdigest()}


def mutated_in_place(stmts):
    """Names whose container is changed in place somewhere in the statements (element / slice store, del d[k],
    mutating method call, augmented assignment to an element)."""
    MUT = {"append", "pop", "add", "remove", "extend", "update", "setdefault", "insert", "clear", "discard", "sort", "popitem", "reverse"}
    out = set()

    def base_name(t):
        while isinstance(t, (ast.Subscript, ast.Attribute)):
            t = t.value
        return t.id if isinstance(t, ast.Name) else None
    for st in stmts:
        for n in ast.walk(st):
            if isinstance(n, ast.Subscript) and isinstance(n.ctx, (ast.Store, ast.Del)):
                b = base_name(n)
                if b:
                    out.add(b)
            elif isinstance(n, ast.AugAssign) and not isinstance(n.target, ast.Name):
                b = base_name(n.target)
                if b:
                    out.add(b)
            elif isinstance(n, ast.Call) and isinstance(n.func, ast.Attribute) and n.func.attr in MUT:
                b = base_name(n.func.value)
                if b:
                    out.add(b)
    return out


def assigned_names(stmts):
    """Names (re)bound or mutated inside a statement list; value: 'rebind' or 'elem'."""
    out = {}

    def mark(n, how):
        if how == "rebind" or n not in out:
            out[n] = how if out.get(n) != "rebind" else "rebind"

    def base_name(t):
        while isinstance(t, (ast.Subscript, ast.Attribute)):
            t = t.value
        return t.id if isinstance(t, ast.Name) else None

    MUT = {"append", "pop", "add", "remove", "extend", "update", "setdefault", "insert", "clear", "discard", "sort"}

    class V(ast.NodeVisitor):
        def visit_Name(self, n):
            if isinstance(n.ctx, (ast.Store,)):
                mark(n.id, "rebind")

        def visit_Subscript(self, n):
            if isinstance(n.ctx, (ast.Store, ast.Del)):
                b = base_name(n)
                if b:
                    mark(b, "elem" if isinstance(n.ctx, ast.Store) else "rebind")
            self.generic_visit(n)

        def visit_AugAssign(self, n):
            b = base_name(n.target)
            if b:
                mark(b, "rebind" if isinstance(n.target, ast.Name) else "elem")
            self.generic_visit(n)

        def visit_Call(self, n):
            if isinstance(n.func, ast.Attribute) and n.func.attr in MUT:
                b = base_name(n.func.value)
                if b:
                    mark(b, "rebind")
            if isinstance(n.func, ast.Attribute) and n.func.attr in ("execute", "executemany", "executescript", "commit", "close"):
                mark("__db__", "rebind")
            self.generic_visit(n)

        def visit_FunctionDef(self, n):
            mark(n.name, "rebind")

        def visit_Yield(self, n):
            mark("__yielded__", "rebind")
            self.generic_visit(n)

        def visit_Delete(self, n):
            for t in n.targets:
                if isinstance(t, ast.Subscript):
                    b = base_name(t)
                    if b:
                        mark(b, "rebind")

        def visit_ListComp(self, n):
            # comprehension variables are local to the comprehension
            for g in n.generators:
                self.visit(g.iter)

        visit_GeneratorExp = visit_SetComp = visit_DictComp = visit_ListComp

    for s in stmts:
        V().visit(s)
    return out


# ----------------------------------------------------------------------------- executor

class Exec:
    def __init__(self, ctx, module, qual, contract):
        self.ctx = ctx                  # Verifier (module cache, contracts, libspec)
        self.module = module
        self.qual = qual
        self.fnode, self.cls = module.functions[qual]
        self.contract = contract
        self.obls = []
        self.trivial = 0
        self.exits = []
        self.loop_ordinal = 0
        self.checking = True            # False while evaluating contract text (no safety obligations)
        self.binders = 0                # > 0 while evaluating under a quantifier-bound variable
        self.bound_stack = []
        self.notes = []
        self.is_generator = any(isinstance(n, (ast.Yield, ast.YieldFrom)) for n in ast.walk(self.fnode))
        self.fnname = "%s.%s" % (module.modname.split(".")[-1], qual)

    # ------------------------------------------------------------------ obligations
    TOLERABLE = {"key-present": "KeyError", "index-in-range": "IndexError", "pop-nonempty": "IndexError",
                 "nonempty-min": "ValueError", "nonempty-max": "ValueError", "nonempty-mean": "ValueError",
                 "unpack-arity": "ValueError", "nonempty-argwhere": "IndexError"}

    def oblige(self, st, goal, kind, node, note=""):
        if not self.checking:
            return
        exc = self.TOLERABLE.get(kind)
        declared = list(getattr(self.contract, "may_raise", [])) + [r["exc"] for r in getattr(self.contract, "raises", [])]
        if exc and exc in declared and not self.binders:
            # the contract allows this exception: not an obligation but an exceptional path
            if goal is True:
                return
            st.pending.append((list(st.pc), znot(goal) if not isinstance(goal, bool) else (not goal), exc))
            st.assume(goal)
            return
        line = getattr(node, "lineno", 0)
        if goal is True:
            self.trivial += 1
            return
        k = sum(1 for o in self.obls if o.line == line and o.kind == kind and o.name.endswith(".0"))
        # a quantified postcondition that is (up to bound-variable names) one of the most recent facts -- typically the
        # conclusion of a lemma just applied -- is kept whole and proved from those few facts: splitting it would bury
        # the match among a hundred hypotheses
        gz = to_z3(goal)
        if kind.startswith("ensures") and z3.is_quantifier(gz) and len(st.pc) > 12:
            recent = list(st.pc[-12:])
            chk = z3.Solver()
            chk.set("rlimit", 3000000)         # a deterministic budget: the shape of the VCs must not depend on machine load
            chk.set("timeout", 20000)
            chk.add(*recent)
            chk.add(z3.Not(gz))
            if chk.check() == z3.unsat:
                self.obls.append(Obl("%s:L%d:%s#%d.0" % (self.fnname, line, kind, k), recent, gz, kind, line, self.fnname, note))
                return
        # goal splitting; a conjunction A and B is proved as A, then B under A (sound; later conjuncts lean on earlier ones)
        for j, (hs, leaf) in enumerate(intro(to_z3(goal))):
            name = "%s:L%d:%s#%d.%d" % (self.fnname, line, kind, k, j)
            self.obls.append(Obl(name, list(st.pc) + hs, leaf, kind, line, self.fnname, note))

    def oblige_and_assume(self, st, goal, kind, node, note=""):
        self.oblige(st, goal, kind, node, note)
        st.assume(goal)

    # ------------------------------------------------------------------ entry
    def run(self):
        c = self.contract
        for g in getattr(c, "ghosts", None) or []:
            g["hit"] = 0
        st = State()
        args = self.fnode.args
        params = [a.arg for a in args.posonlyargs + args.args + args.kwonlyargs]
        self.params = params
        facts = []
        for p in params:
            if p == "self" and self.cls:
                st.locals[p] = c.make_self(self, st, facts)
                continue
            if p in (getattr(self, "concrete_inputs", None) or {}):
                st.locals[p] = self.concrete_inputs[p]      # CPython cross-check: run on a concrete input
                continue
            ty = c.arg_types.get(p)
            if ty is None:
                raise EngineError("contract of %s gives no type for parameter %r" % (self.fnname, p))
            if ty in ("connection", "cursor"):
                st.locals[p] = Opaque(ty, rows=None)
                continue
            if ty == "tz":
                st.locals[p] = Opaque("tz", id=z3.Int(uid("zone")))
                continue
            if ty == "file":
                st.locals[p] = Opaque("file", path=Opaque("argument", name=p))
                continue
            if isinstance(ty, str) and ty.startswith("obj["):
                target = ty[4:-1]
                st.locals[p] = c.make_self(self, st, facts, c.registry.class_fields(target), target, p)
                continue
            st.locals[p] = fresh(parse_type(ty) if isinstance(ty, str) else ty, p, (), facts)
        for f in facts:
            if isinstance(f, tuple):
                continue
            st.assume(f)
        st.ghost["__param_objs__"] = frozenset(p for p in params if isinstance(st.locals.get(p), (DictV, SetV))
                                               or (isinstance(st.locals.get(p), Seq) and st.locals[p].kind != "tuple"))
        if c.setup:
            c.setup(self, st)
        # logical (auxiliary) variables: arbitrary values the contract quantifies over universally
        for lname, lty in c.options.get("logical", {}).items():
            lf = []
            st.locals[lname] = fresh(parse_type(lty), lname, (), lf)
            for f in lf:
                if not isinstance(f, tuple):
                    st.assume(f)
        if c.options.get("db"):
            tables = {}
            for tname, rty in c.registry.tables.items():
                tables[tname] = fresh_seq(parse_type(rty), "tbl_" + tname, (), None, "list")
                st.assume(to_z3(tables[tname].n) >= 0)
            st.ghost["__db__"] = Opaque("db", sealed=z3.Bool(uid("sealed_at_entry")), tables=tables)
        self.entry = st.fork()
        for rq in c.requires:
            st.assume(self.eval_contract(rq, st, {}))
        self.pre_state = st.fork()
        if self.is_generator:
            st.locals["__yielded__"] = Seq.of([], "list")
        states = self.exec_block(self.fnode.body, [st])
        for s in states:
            if s.status == "run":
                s.status, s.value = "return", None
            self.exits.append(s)
        for g in getattr(c, "ghosts", None) or []:
            if not g.get("hit"):
                anchor = g.get("after") or g.get("before")
                present = False
                for n2 in ast.walk(self.fnode):
                    if isinstance(n2, ast.stmt):
                        t2 = ast.unparse(n2)
                        if isinstance(n2, (ast.For, ast.While, ast.If, ast.Try, ast.With)):
                            t2 = t2.split("\n")[0]
                        if t2.startswith(anchor):
                            present = True
                            break
                if present:
                    continue      # the statement exists but no explored path reaches it
                raise EngineError("%s: ghost hook anchored at %r matches no statement (contract does not resolve)"
                                  % (self.fnname, g.get("after") or g.get("before")))
        # vacuity canaries: the entry state (requires) and at least one exit must not be contradictory;
        # individual infeasible paths are normal (their obligations hold trivially)
        self.canaries = [Obl("%s:canary-entry" % self.fnname, list(self.pre_state.pc), z3.BoolVal(False), "canary", 0, self.fnname)]
        for s in self.exits:
            self.check_exit(s)
            self.canaries.append(Obl("%s:canary-exit#%d" % (self.fnname, len(self.canaries)), list(s.pc), z3.BoolVal(False), "canary", 0, self.fnname))
        return self.obls

    def entry_infeasible(self):
        s = z3.Solver()
        s.set("timeout", 3000)
        s.add(*self.pre_state.pc)
        return s.check() == z3.unsat

    def check_exit(self, s):
        c = self.contract
        node = self.fnode
        if s.status == "raise":
            if s.value in getattr(c, "may_raise", []):
                return
            clauses = [r for r in c.raises if r["exc"] == s.value]
            if not clauses:
                self.oblige(s, False, "no-exception[%s]" % s.value, s.ghost.get("__raise_node__", node),
                            "path ends in %s, which the contract does not allow" % s.value)
            else:
                goal = zor(*[self.eval_contract(r["when"], self.pre_state_with(s), {}) for r in clauses])
                self.oblige(s, goal, "raises-only-when[%s]" % s.value, s.ghost.get("__raise_node__", node))
            return
        # normal return
        for name in sorted(s.ghost.get("__mutated_params__", ())):
            if name not in c.modifies:
                self.oblige(s, False, "frame[%s]" % name, s.ghost.get("__return_node__", node),
                            "the function changes the container it received as %r in place, but its contract has no modifies(%r): "
                            "callers assume it unchanged" % (name, name))
        for r in c.raises:
            w = self.eval_contract(r["when"], self.pre_state_with(s), {})
            self.oblige(s, znot(w) if not isinstance(w, bool) else (not w), "must-raise[%s]" % r["exc"], s.ghost.get("__return_node__", node))
        result = s.value
        if self.is_generator:
            result = s.locals["__yielded__"]
        if isinstance(result, Seq) and result.concrete_len() and result.n == 0 and c.returns:
            t = parse_type(c.returns)
            if isinstance(t, tuple) and t[0].startswith("seq:"):
                result = fresh_seq(t[1], "empty_result", (), None, result.kind, n=0)
        extra = {"result": result}
        for gname, gty in getattr(c, "ghost_results", {}).items():
            if gname not in s.locals:
                # the ghost result is existential: on paths that never set it, the empty /
                # arbitrary value is the witness
                t = parse_type(gty)
                extra[gname] = fresh_seq(t[1], gname, (), None, "array", n=0) if isinstance(t, tuple) and t[0].startswith("seq:") else fresh(t, gname)
        for k, ens in enumerate(c.ensures):
            goals = self.eval_contract_goals(ens, s, extra)
            for j, g in enumerate(goals):
                self.oblige(s, g, "ensures[%d.%d]" % (k, j), s.ghost.get("__return_node__", node),
                            ast.unparse(ens)[:200])

    def pre_state_with(self, s):
        st = s.fork()
        st.locals = dict(self.entry.locals)
        return st

    # ------------------------------------------------------------------ contract expressions
    def eval_contract(self, node, st, extra):
        """Evaluate a contract expression (AST) over the state; no safety obligations."""
        saved = self.checking
        self.checking = False
        st2 = st.fork()
        st2.locals.update(extra)
        st2.locals["__old__"] = self.entry.locals if hasattr(self, "entry") else {}
        try:
            v = self.eval(node, st2)
            v = self.truth(v)
        finally:
            self.checking = saved
        # assumptions created while evaluating (fresh functions with axioms) carry over
        for f in st2.pc[len(st.pc):]:
            st.pc.append(f)
        return v

    def eval_contract_goals(self, node, st, extra):
        """Split a top-level conjunction into separate goals (for naming)."""
        if isinstance(node, ast.BoolOp) and isinstance(node.op, ast.And):
            out = []
            for v in node.values:
                out.extend(self.eval_contract_goals(v, st, extra))
            return out
        return [self.eval_contract(node, st, extra)]

    # ------------------------------------------------------------------ statements
    def exec_block(self, stmts, states):
        for stmt in stmts:
            nxt = []
            for st in states:
                if st.status != "run":
                    nxt.append(st)
                    continue
                nxt.extend(self.exec_stmt(stmt, st))
            states = nxt
        return states

    def finish_stmt(self, st, node):
        """Split off the exceptional continuations recorded by calls inside the statement."""
        out = []
        if st.pending:
            pend, st.pending = st.pending, []
            for pc_at, cond, exc in pend:
                e = st.fork()
                e.pc = list(pc_at) + [to_z3(cond)]
                e.pending = []
                if self.feasible(e):
                    e.status, e.value = "raise", exc
                    e.ghost["__raise_node__"] = node
                    out.append(e)
        out.append(st)
        return out

    def exec_stmt(self, node, st):
        m = getattr(self, "stmt_" + type(node).__name__, None)
        if m is None:
            raise EngineError("%s:L%d: statement %s outside the subset" % (self.fnname, node.lineno, type(node).__name__))
        ghosts = getattr(self.contract, "ghosts", None)
        if ghosts:
            text = ast.unparse(node)
            if isinstance(node, (ast.For, ast.While, ast.If, ast.Try, ast.With)):
                text = text.split("\n")[0]      # compound statements: the header line
            for g in ghosts:
                if g.get("before") and text.startswith(g["before"]):
                    g["hit"] = g.get("hit", 0) + 1
                    self.run_ghost(g, st)
        res = m(node, st)
        out = []
        for s in res:
            if s.pending:
                out.extend(self.finish_stmt(s, node))
            else:
                out.append(s)
        ghosts = getattr(self.contract, "ghosts", None)
        if ghosts and not isinstance(node, (ast.For, ast.While, ast.If, ast.Try, ast.With)):
            text = None
            for g in ghosts:
                if text is None:
                    text = ast.unparse(node)
                if g.get("after") and text.startswith(g["after"]):
                    g["hit"] = g.get("hit", 0) + 1
                    for s in out:
                        if s.status == "run":
                            self.run_ghost(g, s)
        return out

    def run_ghost(self, g, st):
        v = self.eval(g["do"].body, st)
        if g.get("let"):
            if not g["let"].startswith("g_"):
                raise EngineError("ghost variables must be named g_*")
            st.locals[g["let"]] = v

    def stmt_Expr(self, node, st):
        v = node.value
        if isinstance(v, ast.Constant):
            return [st]
        if isinstance(v, ast.Call) and isinstance(v.func, ast.Attribute) and isinstance(v.func.value, ast.Name) \
                and v.func.value.id == "LOG":
            return [st]
        if isinstance(v, (ast.Yield,)):
            val = self.eval(v.value, st)
            y = st.locals["__yielded__"]
            st.locals["__yielded__"] = self.seq_append(y, val)
            return [st]
        self.eval(v, st)
        return [st]

    def stmt_Pass(self, node, st):
        return [st]

    def stmt_Delete(self, node, st):
        for t in node.targets:
            if isinstance(t, ast.Name):
                st.locals.pop(t.id, None)
                for a in st.aliases:
                    a.discard(t.id)
            elif isinstance(t, ast.Subscript):
                base = self.eval(t.value, st)
                key = self.eval(t.slice, st)
                if isinstance(base, DictV):
                    self.oblige(st, base.dom(key), "key-present", t)
                    self.assign(t.value, self.dict_delete(base, key), st)
                    if isinstance(t.value, ast.Name):
                        self.note_mutation(t.value.id, st)
                elif isinstance(base, Seq) and isinstance(key, int) and key == 0:
                    self.oblige(st, self.cmp_ge(base.n, 1), "index-in-range", t)
                    self.assign(t.value, Seq(base.n - 1, lambda i, b=base: b.at(i + 1), base.kind), st)
                else:
                    raise EngineError("%s:L%d: unsupported del" % (self.fnname, node.lineno))
            else:
                raise EngineError("%s:L%d: unsupported del target" % (self.fnname, node.lineno))
        return [st]

    def name_seq(self, st, v, hint):
        """Give a compound element-wise array a name: a fresh function with its defining axiom.
        Keeps later terms small and makes `a[i]` an application usable as a trigger."""
        if not (isinstance(v, Seq) and self.checking and not self.binders and not self.bound_stack):
            return v
        if v.concrete_len() and v.items is not None:
            return v
        n = v.n
        if is_z3(n) and mentions_bound(n):
            return v
        p = bvar("ni")
        try:
            saved = self.checking
            self.checking = False
            try:
                e = v.at(p)
            finally:
                self.checking = saved
        except EngineError:
            return v
        comps = e if isinstance(e, tuple) else (e,)
        if not all(is_scalar(x) for x in comps):
            return v
        def simple(x):
            return (not is_z3(x)) or (z3.is_app(x) and x.decl().kind() == z3.Z3_OP_UNINTERPRETED
                                      and x.num_args() == 1 and x.arg(0).eq(p))
        if all(simple(x) for x in comps):
            return v
        fs = []
        rng = z3.And(p >= 0, p < to_z3(n))
        for k, x in enumerate(comps):
            if not is_z3(x):
                fs.append(None)
                continue
            f = z3.Function(uid("%s_%d" % (hint, k) if len(comps) > 1 else hint), I, x.sort())
            st.pc.append(z3.ForAll([p], z3.Implies(rng, f(p) == x), patterns=[f(p)]))
            fs.append(f)
        if isinstance(e, tuple):
            at = lambda i: tuple(fs[k](to_z3(as_int(i))) if fs[k] is not None else comps[k] for k in range(len(comps)))
        else:
            at = lambda i: fs[0](to_z3(as_int(i)))
        out = Seq(n, at, v.kind)
        out._ety = v._ety
        out.width = v.width                # markers such as the inverse permutation of sorted(...) survive the naming
        return out

    def stmt_Assign(self, node, st):
        v = self.eval(node.value, st)
        for t in node.targets:
            for n in ([t] if isinstance(t, ast.Name) else [e for e in ast.walk(t) if isinstance(t, (ast.Tuple, ast.List)) and isinstance(e, ast.Name)]):
                if isinstance(n.ctx, ast.Store):
                    self.rebind(n.id, st)
        if len(node.targets) == 1 and isinstance(node.targets[0], ast.Name):
            v = self.name_seq(st, v, node.targets[0].id)
        for t in node.targets:
            self.assign(t, v, st, rhs=node.value)
        return [st]

    def stmt_AugAssign(self, node, st):
        load = copy.copy(node.target)
        load.ctx = ast.Load()
        ast.fix_missing_locations(load)
        cur = self.eval(load, st)
        rhs = self.eval(node.value, st)
        self.assign(node.target, self.binop(node.op, cur, rhs, st, node), st)
        return [st]

    def stmt_Assert(self, node, st):
        v = self.truth(self.eval(node.test, st))
        if "AssertionError" in getattr(self.contract, "may_raise", []):
            # the contract tolerates this defensive check failing (partial correctness)
            if v is True:
                return [st]
            out = []
            f = st.fork()
            f.assume(znot(v))
            if v is not False and self.feasible(f) or v is False:
                f.status, f.value = "raise", "AssertionError"
                f.ghost["__raise_node__"] = node
                out.append(f)
            if v is not False:
                st.assume(v)
                out.append(st)
            return out
        self.oblige_and_assume(st, v, "assert", node, ast.unparse(node.test)[:160])
        return [st]

    def stmt_Return(self, node, st):
        st.value = self.eval(node.value, st) if node.value is not None else None
        st.status = "return"
        st.ghost["__return_node__"] = node
        return [st]

    def stmt_Raise(self, node, st):
        exc = node.exc
        name = None
        if isinstance(exc, ast.Call):
            exc = exc.func
        if isinstance(exc, ast.Name):
            name = exc.id
        elif isinstance(exc, ast.Attribute):
            name = exc.attr
        if name is None:
            raise EngineError("%s:L%d: unsupported raise" % (self.fnname, node.lineno))
        st.status, st.value = "raise", name
        st.ghost["__raise_node__"] = node
        return [st]

    def stmt_If(self, node, st):
        c = self.truth(self.eval(node.test, st))
        if st.pending:
            # evaluate exceptional continuations of the test first
            outs = self.finish_stmt(st, node)
            st = outs[-1]
            exc_states = outs[:-1]
        else:
            exc_states = []
        if c is True:
            return exc_states + self.exec_block(node.body, [st])
        if c is False:
            return exc_states + self.exec_block(node.orelse, [st])
        a = st.fork()
        a.assume(c)
        b = st
        b.assume(znot(c))
        out = list(exc_states)
        if self.feasible(a):
            out += self.exec_block(node.body, [a])
        if self.feasible(b):
            out += self.exec_block(node.orelse, [b])
        return out

    def stmt_FunctionDef(self, node, st):
        defaults = {}
        args = node.args
        for a, d in zip(args.args[len(args.args) - len(args.defaults):], args.defaults):
            defaults[a.arg] = self.eval(d, st)
        free = {n.id for n in ast.walk(node) if isinstance(n, ast.Name) and isinstance(n.ctx, ast.Load)}
        env = {k: v for k, v in st.locals.items() if k in free and not k.startswith("__")}
        st.locals[node.name] = Closure(node, defaults, env)
        return [st]

    def ordinal_of(self, node):
        if not hasattr(self, "_loop_ids"):
            ids = {}

            def visit(n):
                for ch in ast.iter_child_nodes(n):
                    if isinstance(ch, (ast.For, ast.While)):
                        ids[id(ch)] = len(ids)
                    if not isinstance(ch, (ast.FunctionDef, ast.Lambda)) or ch is self.fnode:
                        visit(ch)
            visit(self.fnode)
            self._loop_ids = ids
        return self._loop_ids[id(node)]

    def stmt_For(self, node, st):
        ordinal = self.ordinal_of(node)
        for n in ast.walk(node.target):
            if isinstance(n, ast.Name):
                self.rebind(n.id, st)
        it = self.eval(node.iter, st)
        seq = self.as_seq(it, st, node.iter)
        spec = self.contract.loops.get(ordinal)
        if getattr(self, "unroll_concrete", False) and seq.concrete_len() and seq.n <= 64:
            spec = None                                     # cross-check mode: execute the loop, do not summarise it
        if spec is None and seq.concrete_len() and seq.n <= (64 if getattr(self, "unroll_concrete", False) else UNROLL_LIMIT):
            states = [st]
            done = []
            saved_ord = self.loop_ordinal
            for k in range(seq.n):
                self.loop_ordinal = saved_ord
                nxt = []
                for s in states:
                    self.assign(node.target, seq.at(k), s)
                    s.locals["__it%d__" % ordinal] = k
                    for r in self.exec_block(node.body, [s]):
                        if r.status == "continue":
                            r.status = "run"
                        if r.status == "break":
                            r.status = "run"
                            done.append(r)
                        elif r.status == "run":
                            nxt.append(r)
                        else:
                            done.append(r)
                states = nxt
            if seq.n == 0:
                self.skip_loops(node.body)
            return states + done
        if spec is None:
            raise EngineError("%s:L%d: loop #%d has no invariant in the sidecar contract" % (self.fnname, node.lineno, ordinal))
        return self.loop_with_invariant(node, st, spec, seq=seq)

    def skip_loops(self, stmts):
        for s in stmts:
            for n in ast.walk(s):
                if isinstance(n, (ast.For, ast.While)):
                    self.loop_ordinal += 1

    def stmt_While(self, node, st):
        ordinal = self.ordinal_of(node)
        spec = self.contract.loops.get(ordinal)
        if spec is None:
            raise EngineError("%s:L%d: loop #%d has no invariant in the sidecar contract" % (self.fnname, node.lineno, ordinal))
        return self.loop_with_invariant(node, st, spec, seq=None)

    def loop_with_invariant(self, node, st, spec, seq):
        ordinal = spec["ordinal"]
        inv = spec["invariant"]            # ast.Lambda
        itname = inv.args.args[0].arg if inv.args.args else None
        mod = assigned_names(node.body)
        # frame: a parameter's container changed in place inside the loop is changed for the caller
        for name in sorted(mutated_in_place(node.body)):
            self.note_mutation(name, st)
        if seq is not None:
            for n in ast.walk(node.target):
                if isinstance(n, ast.Name):
                    mod[n.id] = "rebind"
        saved_ord = self.loop_ordinal
        if seq is not None:
            st.locals["__seq%d__" % ordinal] = seq       # contract vocabulary loop_seq(ordinal): what the loop iterates over
        # ghost variables (re)bound by hooks anchored at statements inside the loop body
        for g in getattr(self.contract, "ghosts", None) or []:
            if g.get("let"):
                anchor = g.get("after") or g.get("before")
                for sub in node.body:
                    for n2 in ast.walk(sub):
                        if isinstance(n2, ast.stmt) and not isinstance(n2, (ast.For, ast.While, ast.If, ast.Try, ast.With)) \
                                and ast.unparse(n2).startswith(anchor):
                            mod[g["let"]] = "rebind"

        def bind_it(s, v):
            if itname:
                s.locals[itname] = v

        def inv_goals(s):
            return self.eval_contract_goals(inv.body, s, {})

        # empty containers get the element types declared by the sidecar (values are arbitrary)
        for name, ty in spec.get("types", {}).items():
            cur = st.locals.get(name)
            if isinstance(cur, DictV) and cur.kty == "any":
                t = fresh(parse_type(ty), name + "_e0")
                st.locals[name] = DictV(lambda k: False, t.val, 0, t.kty, t.vty, default=cur.default)
            elif isinstance(cur, SetV) and cur.kty == "any":
                t = fresh(parse_type(ty), name + "_e0")
                st.locals[name] = SetV(lambda k: False, 0, t.kty)
            elif isinstance(cur, Seq) and cur.concrete_len() and cur.n == 0:
                t = fresh(parse_type(ty), name + "_e0")
                e = Seq(0, t._at, cur.kind)
                e._ety = t.ety()
                st.locals[name] = e
        # 1. establishment
        e = st.fork()
        bind_it(e, 0)
        for j, g in enumerate(inv_goals(e)):
            self.oblige(e, g, "loop%d-invariant-established[%d]" % (ordinal, j), node, ast.unparse(inv.body)[:200])

        def havoc(s):
            for name, how in mod.items():
                if name == "__db__":
                    if "__db__" in s.ghost:
                        s.ghost["__db__"] = self.ctx.havoc_db(self, s, s.ghost["__db__"])
                    continue
                if name not in s.locals:
                    continue
                cur = s.locals[name]
                if isinstance(cur, (Closure, Builtin, RepoFunction, ModuleRef)):
                    continue
                facts = []
                declared = spec.get("types", {}).get(name)
                if declared is None and isinstance(cur, Seq) and cur.concrete_len() and cur.n == 0:
                    # an empty list has no element type of its own: use the one another loop of the contract declares
                    for other in self.contract.loops.values():
                        declared = declared or other.get("types", {}).get(name)
                if declared is not None:
                    s.locals[name] = fresh(parse_type(declared), name, (), facts)
                elif isinstance(cur, Seq) and how == "elem":
                    s.locals[name] = fresh_seq(cur.ety(), name, (), facts, cur.kind, n=cur.n)
                else:
                    s.locals[name] = fresh(type_of(cur), name, (), facts)
                if isinstance(cur, DictV) and cur.default is not None and isinstance(s.locals[name], DictV):
                    s.locals[name].default = cur.default
                for f in facts:
                    if not isinstance(f, tuple):
                        s.assume(f)
            for gname in spec.get("ghost_modifies", ()):
                cur = s.ghost[gname]
                facts = []
                s.ghost[gname] = fresh(type_of(cur), gname, (), facts)
                for f in facts:
                    if not isinstance(f, tuple):
                        s.assume(f)

        # 2. an arbitrary iteration
        b = st.fork()
        havoc(b)
        if seq is not None:
            itv = z3.Int(uid("it"))
            b.assume(itv >= 0, self.cmp_lt(itv, seq.n))
            bind_it(b, itv)
            b.locals["__it%d__" % ordinal] = itv      # visible to ghost hooks as loop_it(ordinal)
            b.assume(*inv_goals(b))
            self.assign(node.target, seq.at(itv), b)
            body_in = [b]
        else:
            itv = None
            b.assume(*inv_goals(b))
            measure0 = None
            if spec.get("decreases") is not None:
                measure0 = self.eval_contract_value(spec["decreases"].body, b)
            c = self.truth(self.eval(node.test, b))
            b.assume(c)
            body_in = [b] if self.feasible(b) else []
        exits = []
        for r in self.exec_block(node.body, body_in):
            if r.status in ("run", "continue"):
                r.status = "run"
                if seq is not None:
                    bind_it(r, itv + 1)
                for j, g in enumerate(inv_goals(r)):
                    self.oblige(r, g, "loop%d-invariant-preserved[%d]" % (ordinal, j), node, ast.unparse(inv.body)[:200])
                if seq is None and spec.get("decreases") is not None:
                    m1 = self.eval_contract_value(spec["decreases"].body, r)
                    self.oblige(r, zand(self.cmp_lt(m1, measure0), self.cmp_ge(measure0, 0)),
                                "loop%d-decreases" % ordinal, node)
            elif r.status == "break":
                raise EngineError("%s:L%d: break inside a loop with invariant is outside the subset" % (self.fnname, node.lineno))
            else:
                exits.append(r)
        # 3. after the loop
        a = st
        self.loop_ordinal = saved_ord
        self.skip_loops(node.body)
        havoc(a)
        if seq is not None:
            bind_it(a, seq.n)
            a.assume(*inv_goals(a))
        else:
            a.assume(*inv_goals(a))
            c = self.truth(self.eval(node.test, a))
            a.assume(znot(c) if not isinstance(c, bool) else (not c))
        if node.orelse:
            raise EngineError("loop else outside the subset")
        return [a] + exits

    def eval_contract_value(self, node, st):
        saved = self.checking
        self.checking = False
        try:
            return self.eval(node, st.fork())
        finally:
            self.checking = saved

    def stmt_Break(self, node, st):
        st.status = "break"
        return [st]

    def stmt_Continue(self, node, st):
        st.status = "continue"
        return [st]

    def stmt_Try(self, node, st):
        if node.finalbody or node.orelse:
            raise EngineError("%s:L%d: try/finally/else outside the subset" % (self.fnname, node.lineno))
        out = []
        for r in self.exec_block(node.body, [st]):
            if r.status == "raise":
                handled = False
                for h in node.handlers:
                    names = []
                    if h.type is None:
                        names = None
                    elif isinstance(h.type, ast.Name):
                        names = [h.type.id]
                    elif isinstance(h.type, ast.Tuple):
                        names = [e.id for e in h.type.elts]
                    if names is None or r.value in names or "Exception" in names:
                        r.status, r.value = "run", None
                        out.extend(self.exec_block(h.body, [r]))
                        handled = True
                        break
                if not handled:
                    out.append(r)
            else:
                out.append(r)
        return out

    def stmt_With(self, node, st):
        return self.ctx.lib.exec_with(self, node, st)

    def stmt_Import(self, node, st):
        return [st]

    # ------------------------------------------------------------------ assignment
    def rebind(self, name, st):
        """The variable is bound to a new object: it no longer names the caller's container."""
        objs = st.ghost.get("__param_objs__")
        if objs and name in objs:
            st.ghost["__param_objs__"] = objs - {name}

    def note_mutation(self, name, st):
        # frame: an in-place change of a container received as a parameter must be declared in `modifies`
        if name in st.ghost.get("__param_objs__", ()):
            st.ghost["__mutated_params__"] = st.ghost.get("__mutated_params__", frozenset()) | {name}
        for a in st.aliases:
            if name in a and len(a) > 1:
                raise EngineError("%s: mutation of %r while aliased by %s is outside the subset" % (self.fnname, name, sorted(a - {name})))

    def assign(self, target, v, st, rhs=None):
        if isinstance(target, ast.Name):
            for a in st.aliases:
                a.discard(target.id)
            if rhs is not None and isinstance(rhs, ast.Name) and isinstance(v, (Seq, DictV, SetV)) and v.__class__ is not tuple:
                if not (isinstance(v, Seq) and v.kind == "tuple"):
                    for a in st.aliases:
                        if rhs.id in a:
                            a.add(target.id)
                            break
                    else:
                        st.aliases.append({rhs.id, target.id})
            st.locals[target.id] = v
            return
        if isinstance(target, (ast.Tuple, ast.List)):
            items = self.unpack(v, len(target.elts), st, target)
            for t, x in zip(target.elts, items):
                self.assign(t, x, st)
            return
        if isinstance(target, ast.Subscript):
            base = self.eval(target.value, st)
            newbase = self.store_subscript(base, target, v, st)
            self.assign(target.value, newbase, st)
            if isinstance(target.value, ast.Name):
                self.note_mutation(target.value.id, st)
            return
        if isinstance(target, ast.Attribute):
            obj = self.eval(target.value, st)
            if isinstance(obj, Opaque):
                self.assign(target.value, obj.updated(**{target.attr: v}), st)
                return
        raise EngineError("%s:L%d: unsupported assignment target" % (self.fnname, target.lineno))

    def unpack(self, v, k, st, node):
        if isinstance(v, MaybeNone):
            # unpacking None raises TypeError
            st.pending.append((list(st.pc), znot(v.present), "TypeError"))
            st.assume(v.present)
            v = v.value
        if isinstance(v, tuple):
            if len(v) != k:
                self.oblige(st, False, "unpack-arity", node)
                raise EngineError("%s:L%d: cannot unpack %d values into %d targets" % (self.fnname, node.lineno, len(v), k))
            return list(v)
        if isinstance(v, Seq):
            self.oblige_and_assume(st, self.cmp_eq(v.n, k), "unpack-arity", node, "expected %d values" % k)
            return [v.at(j) for j in range(k)]
        raise EngineError("%s:L%d: cannot unpack %r" % (self.fnname, node.lineno, v))

    def store_subscript(self, base, target, v, st):
        sl = target.slice
        if isinstance(base, DictV):
            key = self.eval(sl, st)
            return self.dict_store(base, key, v)
        if isinstance(base, Seq):
            if isinstance(sl, ast.Slice):
                if sl.lower is None and sl.upper is None and sl.step is None:
                    # a[:] = scalar / array
                    if isinstance(v, Seq):
                        self.oblige(st, self.cmp_eq(v.n, base.n), "broadcast-shape", target)
                        return Seq(base.n, v._at, base.kind)
                    if isinstance(v, Opaque) and v.kind == "nan":
                        # NaN fill: the values are "not a number" — modelled as unspecified reals that
                        # must be overwritten before use (nothing can be proved about them)
                        return fresh_seq("real", "nanfill", (), None, base.kind, n=base.n)
                    return Seq(base.n, lambda i, v=v: v, base.kind)
                raise EngineError("%s:L%d: slice assignment outside the subset" % (self.fnname, target.lineno))
            idx = self.eval(sl, st)
            if isinstance(idx, tuple) and len(idx) == 2 and isinstance(base.ety(), tuple) and base.ety()[0].startswith("seq:"):
                # A[r, c] = v on a 2-D array
                r, c = idx
                r = self.norm_index(r, base.n, st, target)
                row = base.at(r)
                c = self.norm_index(c, row.n, st, target)
                return Seq(base.n, lambda i, base=base, r=r, c=c, v=v:
                           _row_update(base.at(i), self.cmp_eq(i, r), c, v), base.kind)
            if isinstance(idx, Seq):
                if idx.ety() == "bool":
                    self.oblige(st, self.cmp_eq(idx.n, base.n), "mask-shape", target)
                    if isinstance(v, Seq):
                        raise EngineError("mask assignment of an array is outside the subset")
                    return Seq(base.n, lambda i, base=base, idx=idx, v=v: zite(idx.at(i), v, base.at(i)), base.kind)
                # integer index list: a[idx] = scalar
                self.oblige_forall_index(st, idx, base.n, target)
                member = self.seq_membership(idx, st)
                if isinstance(v, Seq):
                    raise EngineError("index-list assignment of an array is outside the subset")
                return Seq(base.n, lambda i, base=base, v=v, member=member: zite(member(i), v, base.at(i)), base.kind)
            if is_scalar(idx):
                i0 = self.norm_index(idx, base.n, st, target)
                if isinstance(v, Seq) and isinstance(base.ety(), tuple) and base.ety()[0].startswith("seq:"):
                    # A[r] = row  (numpy copies the values)
                    self.oblige(st, self.cmp_eq(v.n, base.at(i0).n), "broadcast-shape", target)
                    vv = Seq(v.n, v._at, "array")
                    return Seq(base.n, lambda i, base=base, i0=i0, vv=vv: zite(self.cmp_eq(i, i0), vv, base.at(i)), base.kind)
                if base.concrete_len() and isinstance(i0, int) and base.items is not None:
                    items = list(base.items)
                    items[i0] = v
                    return Seq.of(items, base.kind)
                return Seq(base.n, lambda i, base=base, i0=i0, v=v: zite(self.cmp_eq(i, i0), v, base.at(i)), base.kind)
        raise EngineError("%s:L%d: unsupported subscript store on %r" % (self.fnname, target.lineno, base))

    def oblige_forall_index(self, st, idx, n, node):
        if idx.concrete_len() and idx.n == 0:
            return
        j = bvar("j")
        h = st.fork()
        h.assume(j >= 0, self.cmp_lt(j, idx.n))
        v = as_int(idx.at(j))
        self.oblige(h, zand(self.cmp_ge(v, 0), self.cmp_lt(v, n)), "index-in-range", node, "every element of the index array")

    def seq_membership(self, idx, st):
        """k -> Bool: k occurs in integer sequence idx (fresh predicate with witness function)."""
        if idx.concrete_len():
            return lambda k: zor(*[self.cmp_eq(k, idx.at(j)) for j in range(idx.n)])
        mem = z3.Function(uid("member"), I, B)
        wit = z3.Function(uid("wit"), I, I)
        k = bvar("k")
        j = bvar("j")
        st.assume(z3.ForAll([k], mem(k) == z3.And(wit(k) >= 0, wit(k) < to_z3(idx.n), to_z3(as_int(idx.at(wit(k)))) == k), patterns=[mem(k)]))
        aj = to_z3(as_int(idx.at(j)))
        st.assume(z3.ForAll([j], z3.Implies(z3.And(j >= 0, j < to_z3(idx.n)), mem(aj)), patterns=[aj] if not z3.is_var(aj) else [mem(aj)]))
        return lambda kk: mem(to_z3(kk))

    def norm_index(self, i, n, st, node):
        i = as_int(i)
        if isinstance(i, int):
            if i >= 0:
                self.oblige(st, self.cmp_lt(i, n), "index-in-range", node)
                return i
            self.oblige(st, self.cmp_ge(n, -i), "index-in-range", node)
            return n + i
        if not self.checking:
            return i
        self.oblige(st, zand(self.cmp_ge(i, -n if isinstance(n, int) else -n), self.cmp_lt(i, n)), "index-in-range", node)
        if self.implied(st, i >= 0):
            return i
        return self.define(st, z3.If(i < 0, i + to_z3(n), i), "idx")

    def define(self, st, v, name="d"):
        """Name a compound integer term by a fresh constant (keeps later terms small).  Only at
        statement level: never under a bound variable or while reading contract text."""
        if not is_z3(v) or not self.checking or self.binders or z3.is_const(v) or z3.is_int_value(v):
            return v
        if mentions_bound(v):
            return v
        c = z3.Const(uid(name), v.sort())
        st.pc.append(c == v)
        return c

    # ------------------------------------------------------------------ solver helpers on the path
    def _qf(self, hyps):
        """The quantifier-free hypotheses (cached per term id)."""
        cache = self.__dict__.setdefault("_qf_cache", {})
        out = []
        for h in hyps:
            k = h.get_id()
            if k not in cache:
                cache[k] = not _has_quantifier(h)
            if cache[k]:
                out.append(h)
        return out

    def feasible(self, st):
        """Path pruning: a path is dropped only when its quantifier-free assumptions are already
        contradictory (sound: a subset is unsat).  Quantifier-free queries take milliseconds, so the
        VC text does not depend on machine load."""
        if not st.pc:
            return True
        s = z3.Solver()
        s.set("timeout", 2000)
        s.add(*self._qf(st.pc))
        return s.check() != z3.unsat

    def implied(self, st, fact):
        """Cheap entailment test used only to simplify terms (never to decide an obligation):
        from the quantifier-free assumptions only."""
        f = to_z3(fact)
        if _has_quantifier(f):
            return False
        s = z3.Solver()
        s.set("timeout", 2000)
        s.add(*self._qf(st.pc))
        s.add(z3.Not(f))
        return s.check() == z3.unsat

    # ------------------------------------------------------------------ comparisons / arithmetic
    def cmp_eq(self, a, b):
        return values_equal(a, b)

    def _num2(self, a, b):
        ka, kb = sort_of(a), sort_of(b)
        if ka is None or kb is None:
            raise EngineError("numeric operation on non-numbers %r, %r" % (a, b))
        if "real" in (ka, kb):
            return as_real(a), as_real(b), "real"
        return as_int(a), as_int(b), "int"

    def cmp_lt(self, a, b):
        a, b, _ = self._num2(a, b)
        return a < b if not (is_z3(a) or is_z3(b)) else to_z3(a) < to_z3(b)

    def cmp_le(self, a, b):
        a, b, _ = self._num2(a, b)
        return a <= b if not (is_z3(a) or is_z3(b)) else to_z3(a) <= to_z3(b)

    def cmp_ge(self, a, b):
        return self.cmp_le(b, a)

    def cmp_gt(self, a, b):
        return self.cmp_lt(b, a)

    def truth(self, v):
        if isinstance(v, bool):
            return v
        if is_scalar(v):
            return as_bool(v)
        if v is None:
            return False
        if isinstance(v, str):
            return len(v) > 0
        if isinstance(v, tuple):
            return len(v) > 0
        if isinstance(v, Seq):
            if v.kind == "array":
                raise EngineError("truth value of an array")
            return self.cmp_gt(v.n, 0)
        if isinstance(v, (DictV, SetV)):
            return self.cmp_gt(v.size, 0)
        if isinstance(v, MaybeNone):
            return v.present
        if isinstance(v, Opaque):
            return True
        raise EngineError("no truth value for %r" % (v,))

    def scalar_binop(self, op, a, b, st, node):
        if isinstance(op, (ast.BitAnd, ast.BitOr, ast.BitXor)):
            if sort_of(a) == "bool" and sort_of(b) == "bool":
                if isinstance(op, ast.BitAnd):
                    return zand(a, b)
                if isinstance(op, ast.BitOr):
                    return zor(a, b)
                return znot(values_equal(a, b))
            raise EngineError("bitwise operation on integers is outside the subset")
        if isinstance(a, str) and isinstance(b, str) and isinstance(op, ast.Add):
            return a + b
        a, b, k = self._num2(a, b)
        conc = not (is_z3(a) or is_z3(b))
        if (k == "real" or isinstance(op, ast.Div)) and not conc and getattr(self.ctx, "float_mode", "R") == "uf" \
                and isinstance(op, (ast.Add, ast.Sub, ast.Mult, ast.Div)):
            # UF-rounding mode: every floating-point operation is an uninterpreted deterministic function
            # of its operands (nothing but congruence is known about rounding); integer arithmetic is exact
            name = {ast.Add: "fadd", ast.Sub: "fsub", ast.Mult: "fmul", ast.Div: "fdiv"}[type(op)]
            f = self.ctx.uf(name, R, R, R)
            if isinstance(op, ast.Div):
                if not st.ghost.get("fdiv_sign"):
                    # the one fact about rounding used: a quotient of non-zero operands is non-zero and has
                    # their sign (no underflow at these magnitudes; listed as an assumption)
                    st.ghost["fdiv_sign"] = True
                    from .libspec import trusted
                    trusted("UF-rounding mode: fdiv(x, y) is non-zero with the sign of x / y when x, y are non-zero (no underflow)")
                    u, v = z3.Real(uid("u")), z3.Real(uid("v"))
                    BOUND_add = __import__("pyvc.values", fromlist=["BOUND"]).BOUND
                    BOUND_add.add(u.decl().name()); BOUND_add.add(v.decl().name())
                    st.pc.append(z3.ForAll([u, v], z3.Implies(z3.And(u != 0, v != 0),
                                                            z3.And(f(u, v) != 0, (f(u, v) > 0) == ((u > 0) == (v > 0)))), patterns=[f(u, v)]))
                self.oblige(st, znot(values_equal(b, 0)), "division-by-zero", node)
            return f(to_z3(as_real(a)), to_z3(as_real(b)))
        if isinstance(op, ast.Add):
            return a + b
        if isinstance(op, ast.Sub):
            return a - b
        if isinstance(op, ast.Mult):
            if is_z3(a) and is_z3(b) and not (z3.is_rational_value(a) or z3.is_int_value(a) or z3.is_rational_value(b) or z3.is_int_value(b)) \
                    and self.ctx.nonlinear == "uf":
                # products of two symbolic terms are abstracted by an uninterpreted function
                # (sound: only congruence is available); linear arithmetic stays decidable
                srt = R if k == "real" else I
                f = self.ctx.uf("nlmul_" + k, srt, srt, srt)
                if not st.ghost.get("nlmul_comm_" + k):
                    st.ghost["nlmul_comm_" + k] = True
                    u, v = z3.Const(uid("u"), srt), z3.Const(uid("v"), srt)
                    st.pc.append(z3.ForAll([u, v], f(u, v) == f(v, u), patterns=[f(u, v)]))
                return f(to_z3(a), to_z3(b))
            return a * b
        if isinstance(op, ast.Div):
            a, b = as_real(a), as_real(b)
            self.oblige(st, znot(values_equal(b, 0)), "division-by-zero", node)
            if conc:
                return Fraction(a) / Fraction(b)
            if is_z3(b) and not z3.is_rational_value(b) and self.ctx.nonlinear == "uf":
                return self.ctx.uf("nldiv", R, R, R)(to_z3(a), b)
            return to_z3(a) / to_z3(b)
        if isinstance(op, (ast.FloorDiv, ast.Mod)):
            self.oblige(st, znot(values_equal(b, 0)), "division-by-zero", node)
            if k == "int":
                if conc:
                    return a // b if isinstance(op, ast.FloorDiv) else a % b
                za, zb = to_z3(a), to_z3(b)
                q = z3.If(zb > 0, za / zb, (-za) / (-zb))
                return q if isinstance(op, ast.FloorDiv) else za - zb * q
            if conc:
                import math
                q = Fraction(math.floor(Fraction(a) / Fraction(b)))
                return q if isinstance(op, ast.FloorDiv) else Fraction(a) - Fraction(b) * q
            za, zb = to_z3(a), to_z3(b)
            q = z3.ToReal(z3.ToInt(za / zb))
            return q if isinstance(op, ast.FloorDiv) else za - zb * q
        if isinstance(op, ast.Pow):
            if conc and isinstance(b, int) and b >= 0:
                return a ** b
            if isinstance(b, int) and 0 <= b <= 4:
                r = 1
                for _ in range(b):
                    r = r * a
                return r
            return self.ctx.lib.power(self, st, a, b, node)
        raise EngineError("%s:L%d: operator %s outside the subset" % (self.fnname, node.lineno, type(op).__name__))

    def binop(self, op, a, b, st, node):
        if isinstance(a, Seq) and a.kind in ("list", "tuple") and isinstance(b, Seq) and b.kind in ("list", "tuple") and isinstance(op, ast.Add):
            return self.seq_concat([a, b], a.kind)
        if isinstance(a, tuple) and isinstance(b, tuple) and isinstance(op, ast.Add):
            return a + b
        if isinstance(a, Seq) or isinstance(b, Seq):
            a2 = self.arrayish(a)
            b2 = self.arrayish(b)
            if isinstance(a2, Seq) and isinstance(b2, Seq):
                self.oblige(st, self.cmp_eq(a2.n, b2.n), "broadcast-shape", node)
                n = a2.n
                probe = self._probe_index(st, n)
                if probe is not None:
                    self.scalar_binop(op, a2.at(probe[1]), b2.at(probe[1]), probe[0], node)
                return self.quiet_seq(n, lambda i: self.scalar_binop(op, a2.at(i), b2.at(i), st, node), "array")
            if isinstance(a2, Seq):
                probe = self._probe_index(st, a2.n)
                if probe is not None:
                    self.scalar_binop(op, a2.at(probe[1]), b2, probe[0], node)
                return self.quiet_seq(a2.n, lambda i: self.scalar_binop(op, a2.at(i), b2, st, node), "array")
            probe = self._probe_index(st, b2.n)
            if probe is not None:
                self.scalar_binop(op, a2, b2.at(probe[1]), probe[0], node)
            return self.quiet_seq(b2.n, lambda i: self.scalar_binop(op, a2, b2.at(i), st, node), "array")
        return self.scalar_binop(op, a, b, st, node)

    def _probe_index(self, st, n):
        """State + fresh index in range, used to emit element-wise safety obligations once."""
        if not self.checking:
            return None
        j = z3.Int(uid("e"))
        h = st.fork()
        h.assume(j >= 0, self.cmp_lt(j, n))
        return (h, j)

    def quiet_seq(self, n, f, kind):
        """Sequence whose element function never emits obligations (they were emitted at a probe)."""
        def at(i):
            saved = self.checking
            self.checking = False
            try:
                return f(i)
            finally:
                self.checking = saved
        return Seq(n, at, kind)

    def arrayish(self, v):
        if isinstance(v, tuple):
            return Seq.of(list(v), "array")
        return v

    def compare(self, op, a, b, st, node):
        if isinstance(a, Seq) and a.kind == "array" or isinstance(b, Seq) and b.kind == "array":
            if isinstance(a, Seq) and isinstance(b, Seq):
                self.oblige(st, self.cmp_eq(a.n, b.n), "broadcast-shape", node)
                return Seq(a.n, lambda i: self.compare(op, a.at(i), b.at(i), st, node), "array")
            if isinstance(a, Seq):
                return Seq(a.n, lambda i: self.compare(op, a.at(i), b, st, node), "array")
            return Seq(b.n, lambda i: self.compare(op, a, b.at(i), st, node), "array")
        if isinstance(op, ast.Eq):
            return self.generic_eq(a, b, st)
        if isinstance(op, ast.NotEq):
            e = self.generic_eq(a, b, st)
            return znot(e)
        if isinstance(op, ast.Is):
            return self.is_same(a, b)
        if isinstance(op, ast.IsNot):
            return znot(self.is_same(a, b))
        if isinstance(op, ast.In):
            return self.contains(b, a, st, node)
        if isinstance(op, ast.NotIn):
            return znot(self.contains(b, a, st, node))
        if isinstance(op, ast.Lt):
            return self.cmp_lt(a, b)
        if isinstance(op, ast.LtE):
            return self.cmp_le(a, b)
        if isinstance(op, ast.Gt):
            return self.cmp_gt(a, b)
        if isinstance(op, ast.GtE):
            return self.cmp_ge(a, b)
        raise EngineError("comparison %s outside the subset" % type(op).__name__)

    def is_same(self, a, b):
        if isinstance(a, MaybeNone) and b is None:
            return znot(a.present)
        if isinstance(a, Opaque) and b is None or a is None and isinstance(b, Opaque):
            return False
        if a is None or b is None:
            return a is None and b is None
        if isinstance(a, (str, bool, int)) and isinstance(b, (str, bool, int)):
            return a is b or a == b
        raise EngineError("`is` on symbolic values is outside the subset")

    def generic_eq(self, a, b, st):
        if isinstance(a, Seq) and isinstance(b, Seq):
            # list == list
            j = bvar("q")
            n = to_z3(a.n)
            return z3.And(to_z3(self.cmp_eq(a.n, b.n)),
                          z3.ForAll([j], z3.Implies(z3.And(j >= 0, j < n), to_z3(values_equal(a.at(j), b.at(j))))))
        if isinstance(a, SetV) and isinstance(b, SetV):
            k = self.fresh_key(a.kty)
            ks = list(key_terms(k))
            return z3.ForAll(ks, to_z3(a.has(k)) == to_z3(b.has(k)))
        if any(isinstance(x, Opaque) and x.kind == "mixed" for x in (a, b)):
            return values_equal(a, b)
        if isinstance(a, Opaque) or isinstance(b, Opaque):
            return self.ctx.lib.opaque_eq(self, st, a, b)
        return values_equal(a, b)

    def fresh_key(self, kty):
        if kty == "int":
            return bvar("k")
        return tuple(bvar("k") for _ in kty[1])

    def contains(self, container, x, st, node):
        if isinstance(container, DictV):
            return container.dom(x)
        if isinstance(container, SetV):
            return container.has(x)
        if isinstance(container, tuple):
            return zor(*[self.generic_eq(x, y, st) for y in container])
        if isinstance(container, Seq):
            if container.concrete_len():
                return zor(*[self.generic_eq(x, container.at(j), st) for j in range(container.n)])
            j = bvar("m")
            return z3.Exists([j], z3.And(j >= 0, j < to_z3(container.n), to_z3(self.generic_eq(x, container.at(j), st))))
        raise EngineError("%s:L%d: `in` on %r outside the subset" % (self.fnname, node.lineno, container))

    # ------------------------------------------------------------------ sequences
    def seq_append(self, s, v):
        if s.concrete_len() and s.items is not None:
            return Seq.of(s.items + [v], s.kind)
        n0 = s.n
        return Seq(n0 + 1, lambda i, s=s, v=v, n0=n0: zite(self.cmp_eq(i, n0), v, s.at(i)), s.kind)

    def seq_concat(self, parts, kind):
        parts = [self.arrayish(p) for p in parts]
        if all(p.concrete_len() and p.items is not None for p in parts):
            items = []
            for p in parts:
                items += p.items
            return Seq.of(items, kind)
        total = 0
        offs = []
        for p in parts:
            offs.append(total)
            total = total + p.n

        def at(i, parts=parts, offs=offs):
            r = parts[-1].at(i - offs[-1])
            for p, o in list(zip(parts, offs))[-2::-1]:
                r = zite(self.cmp_lt(i, o + p.n), p.at(i - o), r)
            return r

        return Seq(total, at, kind)

    def seq_slice(self, s, lo, hi, st, node):
        n = s.n
        def clip(v, default):
            if v is None:
                return default
            v = as_int(v)
            if isinstance(v, int) and isinstance(n, int):
                if v < 0:
                    v += n
                return max(0, min(n, v))
            if isinstance(v, int):
                if v < 0:
                    # n + v clipped at 0
                    return z3.If(to_z3(n) + v < 0, z3.IntVal(0), to_z3(n) + v)
                return z3.If(to_z3(n) < v, to_z3(n), z3.IntVal(v))
            zv, zn = to_z3(v), to_z3(n)
            w = z3.If(zv < 0, zv + zn, zv)
            return z3.If(w < 0, z3.IntVal(0), z3.If(w > zn, zn, w))
        a = self.define(st, clip(lo, 0), "lo") if not isinstance(clip(lo, 0), int) else clip(lo, 0)
        b = self.define(st, clip(hi, n), "hi") if not isinstance(clip(hi, n), int) else clip(hi, n)
        if isinstance(a, int) and isinstance(b, int):
            m = max(0, b - a)
            if s.items is not None:
                return Seq.of(s.items[a:b], s.kind)
        else:
            za, zb = to_z3(a), to_z3(b)
            m = self.define(st, z3.simplify(z3.If(zb - za < 0, z3.IntVal(0), zb - za)), "slen")
        out = Seq(m, lambda i, s=s, a=a: s.at(i + a), s.kind)
        if isinstance(a, int) and a == 0:
            out.prefix_of = (s, b)          # s[:b]: used by seq_filter (a mask's prefix enumerates a prefix)
        return out

    def as_seq(self, v, st, node=None):
        if isinstance(v, Seq):
            return v
        if isinstance(v, tuple):
            return Seq.of(list(v), "tuple")
        if isinstance(v, DictV):
            return self.dict_keys(v, st)
        if isinstance(v, SetV):
            return self.set_elems(v, st)
        if isinstance(v, Opaque) and v.kind == "cursor" and v.get("rows") is not None:
            return v.get("rows")
        if isinstance(v, Opaque) and v.kind == "csvreader":
            return v.get("rows")
        raise EngineError("%s: cannot iterate over %r" % (self.fnname, v))

    def map_seq(self, s, f, kind=None):
        return Seq(s.n, lambda i: f(s.at(i)), kind or s.kind)

    # ------------------------------------------------------------------ dicts
    def dict_store(self, d, key, v):
        kt = key_terms(key)
        dom0, val0 = d.dom, d.val
        had = dom0(key)
        size = z3.If(to_z3(had), to_z3(d.size), to_z3(d.size) + 1) if not isinstance(had, bool) else (d.size if had else d.size + 1)

        def dom(k):
            return zor(self.key_eq(k, key), dom0(k))

        def val(k):
            return zite(self.key_eq(k, key), v, val0(k))

        vty = d.vty if d.vty != "any" else type_of(v)
        kty = d.kty if d.kty != "any" else type_of(key if not isinstance(key, tuple) else tuple(key))
        return DictV(dom, val, size, kty, vty, default=d.default)

    def dict_delete(self, d, key):
        dom0 = d.dom
        return DictV(lambda k: zand(znot(self.key_eq(k, key)), dom0(k)), d.val, d.size - 1, d.kty, d.vty)

    def key_eq(self, a, b):
        return values_equal(a, b)

    def dict_keys(self, d, st):
        """The iteration order of a dict: an unspecified but fixed enumeration of its domain."""
        if d._keys is not None:
            return d._keys
        if isinstance(d.size, int) and d.size == 0:
            d._keys = Seq.of([], "list")
            return d._keys
        arity = len(key_terms(self.fresh_key(d.kty)))
        n = to_z3(d.size)
        kfs = [z3.Function(uid("keyat"), I, I) for _ in range(arity)]
        pos = z3.Function(uid("keypos"), *([I] * arity + [I]))

        def keyat(j):
            ts = tuple(f(to_z3(j)) for f in kfs)
            return ts[0] if d.kty == "int" else ts

        j = bvar("j")
        kj = keyat(j)
        st.assume(z3.ForAll([j], z3.Implies(z3.And(j >= 0, j < n),
                                            z3.And(to_z3(d.dom(kj)), pos(*key_terms(kj)) == j)), patterns=[kfs[0](j)]))
        k = self.fresh_key(d.kty)
        ks = list(key_terms(k))
        pk = pos(*ks)
        # alternative trigger: the membership atom itself (when it is an uninterpreted application of the key), so that
        # a key known to be present gets its place in the iteration order
        dk = to_z3(d.dom(k))
        body = z3.Implies(dk, z3.And(pk >= 0, pk < n, to_z3(values_equal(keyat(pk), k))))
        # (tried: the membership atom as an alternative trigger -- it helped one obligation and slowed others tenfold)
        pats = [pk]
        try:
            st.assume(z3.ForAll(ks, body, patterns=pats))
        except z3.Z3Exception:
            st.assume(z3.ForAll(ks, body, patterns=[pk]))
        st.assume(n >= 0)
        d._keys = Seq(d.size, keyat, "list")
        d._keys.width = ("keypos", pos)          # for the contract vocabulary key_position(d, k)
        return d._keys

    def set_elems(self, s, st):
        if s._elems is None:
            d = DictV(s.has, lambda k: None, s.size, s.kty, "none")
            s._elems = self.dict_keys(d, st)
        return s._elems

    # ------------------------------------------------------------------ expressions
    def eval(self, node, st):
        m = getattr(self, "expr_" + type(node).__name__, None)
        if m is None:
            raise EngineError("%s:L%d: expression %s outside the subset" % (self.fnname, getattr(node, "lineno", 0), type(node).__name__))
        return m(node, st)

    def expr_Constant(self, node, st):
        v = node.value
        if isinstance(v, float):
            return Fraction(repr(v))
        if isinstance(v, (bool, int, str)) or v is None:
            return v
        raise EngineError("constant %r outside the subset" % (v,))

    def expr_Name(self, node, st):
        return self.lookup(node.id, st, node)

    def lookup(self, name, st, node=None):
        if name in st.locals:
            return st.locals[name]
        v = self.contract.lookup_spec(name)
        if v is not None:
            return v
        v = self.ctx.resolve_global(self.module, name)
        if v is not None:
            return v
        raise EngineError("%s:L%d: unbound name %r" % (self.fnname, getattr(node, "lineno", 0), name))

    def expr_Tuple(self, node, st):
        return tuple(self.eval(e, st) for e in node.elts)

    def expr_List(self, node, st):
        items = []
        for e in node.elts:
            if isinstance(e, ast.Starred):
                raise EngineError("starred list display outside the subset")
            items.append(self.eval(e, st))
        return Seq.of(items, "list")

    def expr_Dict(self, node, st):
        if not node.keys:
            return DictV(lambda k: False, lambda k: None, 0, "any", "any")
        return self.ctx.lib.dict_display(self, node, st)

    def expr_JoinedStr(self, node, st):
        return "<formatted>"

    def expr_Lambda(self, node, st):
        defaults = {}
        args = node.args
        for a, d in zip(args.args[len(args.args) - len(args.defaults):], args.defaults):
            defaults[a.arg] = self.eval(d, st)
        return Closure(node, defaults)

    def expr_UnaryOp(self, node, st):
        v = self.eval(node.operand, st)
        if isinstance(node.op, ast.Not):
            t = self.truth(v)
            return znot(t)
        if isinstance(v, Seq):
            return Seq(v.n, lambda i: self.unary(node.op, v.at(i)), "array")
        return self.unary(node.op, v)

    def unary(self, op, v):
        if isinstance(op, ast.USub):
            return -(as_int(v) if sort_of(v) != "real" else as_real(v))
        if isinstance(op, ast.UAdd):
            return v
        if isinstance(op, ast.Invert):
            if sort_of(v) == "bool":
                return znot(v)
            raise EngineError("~ on integers outside the subset")
        raise EngineError("unary operator outside the subset")

    def expr_BoolOp(self, node, st):
        is_and = isinstance(node.op, ast.And)
        vals = []
        toks = []
        try:
            for e in node.values:
                v = self.truth(self.eval(e, st))
                vals.append(v)
                if v is (False if is_and else True):
                    break       # short circuit: the remaining operands are not evaluated
                # later operands are only evaluated when this one is true (and) / false (or)
                toks.append(st.push(v if is_and else znot(v)))
        finally:
            for t in reversed(toks):
                st.pop(t)
        return zand(*vals) if is_and else zor(*vals)

    def expr_IfExp(self, node, st):
        c = self.truth(self.eval(node.test, st))
        if c is True:
            return self.eval(node.body, st)
        if c is False:
            return self.eval(node.orelse, st)
        t = st.push(c)
        try:
            a = self.eval(node.body, st)
        finally:
            st.pop(t)
        t = st.push(z3.Not(to_z3(c)))
        try:
            b = self.eval(node.orelse, st)
        finally:
            st.pop(t)
        return zite(c, a, b)

    def expr_Compare(self, node, st):
        left = self.eval(node.left, st)
        out = []
        for op, rn in zip(node.ops, node.comparators):
            right = self.eval(rn, st)
            out.append(self.compare(op, left, right, st, node))
            left = right
        if len(out) == 1:
            return out[0]
        return zand(*[self.truth(o) for o in out])

    def expr_BinOp(self, node, st):
        if isinstance(node.op, ast.Mod) and isinstance(node.left, ast.Constant) and isinstance(node.left.value, str):
            return "<formatted>"
        a = self.eval(node.left, st)
        b = self.eval(node.right, st)
        return self.binop(node.op, a, b, st, node)

    def expr_Attribute(self, node, st):
        # dotted library names first
        dotted = self.dotted(node)
        if dotted:
            head = dotted.split(".")[0]
            if head not in st.locals:
                g = self.ctx.resolve_dotted(self.module, dotted)
                if isinstance(g, Builtin) and g.name in ("np_missing_attr", "np_nan"):
                    attr = dotted.split(".")[-1]
                    if not hasattr(self.ctx._numpy, attr):
                        self.oblige(st, False, "attribute-defined", node, "numpy %s has no attribute %s" % (self.ctx.numpy_version, attr))
                        st.assume(False)
                    return Opaque("nan")
                if g is not None:
                    return g
        obj = self.eval(node.value, st)
        return self.ctx.lib.getattr(self, st, obj, node.attr, node)

    def dotted(self, node):
        parts = []
        while isinstance(node, ast.Attribute):
            parts.append(node.attr)
            node = node.value
        if isinstance(node, ast.Name):
            parts.append(node.id)
            return ".".join(reversed(parts))
        return None

    def expr_Subscript(self, node, st):
        base = self.eval(node.value, st)
        return self.load_subscript(base, node, st)

    def load_subscript(self, base, node, st):
        sl = node.slice
        if isinstance(base, MaybeNone):
            # subscripting None raises TypeError
            st.pending.append((list(st.pc), znot(base.present), "TypeError"))
            st.assume(base.present)
            base = base.value
        if isinstance(base, DictV):
            key = self.eval(sl, st)
            if base.default is not None:
                # defaultdict: a missing key reads as the default (only the d[k].append(x) idiom stores it)
                return zite(base.dom(key), base.val(key), base.default) if base.vty != "any" else base.default
            self.oblige(st, base.dom(key), "key-present", node, ast.unparse(node)[:100])
            return base.val(key)
        if isinstance(base, tuple):
            if isinstance(sl, ast.Slice):
                lo = self.eval(sl.lower, st) if sl.lower else None
                hi = self.eval(sl.upper, st) if sl.upper else None
                return base[lo:hi]
            i = self.eval(sl, st)
            if isinstance(i, int):
                if not (-len(base) <= i < len(base)):
                    self.oblige(st, False, "index-in-range", node)
                    raise EngineError("tuple index out of range at L%d" % node.lineno)
                return base[i]
            base = Seq.of(list(base), "tuple")
        if isinstance(base, Seq):
            if isinstance(sl, ast.Slice):
                if sl.step is not None:
                    raise EngineError("%s:L%d: slice step outside the subset" % (self.fnname, node.lineno))
                lo = self.eval(sl.lower, st) if sl.lower else None
                hi = self.eval(sl.upper, st) if sl.upper else None
                return self.seq_slice(base, lo, hi, st, node)
            idx = self.eval(sl, st)
            if isinstance(idx, tuple):
                return self.ctx.lib.index2d(self, st, base, idx, node)
            if isinstance(idx, Seq):
                if idx.ety() == "bool":
                    self.oblige(st, self.cmp_eq(idx.n, base.n), "mask-shape", node)
                    return self.seq_filter(base, lambda i: idx.at(i), st, mask=idx)[0]
                self.oblige_forall_index(st, idx, base.n, node)
                return Seq(idx.n, lambda j, base=base, idx=idx: base.at(as_int(idx.at(j))), base.kind)
            if is_scalar(idx):
                i0 = self.norm_index(idx, base.n, st, node)
                return base.at(i0)
        if isinstance(base, Opaque):
            return self.ctx.lib.index_opaque(self, st, base, node)
        raise EngineError("%s:L%d: unsupported subscript on %r" % (self.fnname, node.lineno, base))

    def seq_filter(self, s, keep, st, mask=None):
        """Subsequence of s at the indices i (ascending) where keep(i).  Returns (Seq, src, inv).
        `mask`: the boolean Seq object the predicate comes from.  The ascending enumeration of the true
        positions of one mask object is a property of the mask alone, so every selection through the same
        mask shares one enumeration (count, src, inv); the enumeration of a prefix mask[:h] is the initial
        piece of the mask's enumeration that lies below h (src is strictly increasing)."""
        if s.concrete_len() and all(isinstance(keep(i), bool) for i in range(s.n)):
            idxs = [i for i in range(s.n) if keep(i)]
            return Seq.of([s.at(i) for i in idxs], s.kind), (lambda j: idxs[j]), None
        if mask is not None and not self.bound_stack:
            memo = st.ghost.get("__filters__", {})
            hit = memo.get(id(mask))
            if hit is None and getattr(mask, "prefix_of", None) is not None:
                base, h = mask.prefix_of
                bh = memo.get(id(base))
                if bh is None:
                    self.seq_filter(Seq(base.n, lambda i: i, "array"), lambda i, base=base: base.at(i), st, mask=base)
                    memo = st.ghost.get("__filters__", {})
                    bh = memo.get(id(base))
                if bh is not None:
                    _, bm, bsrc, binv = bh
                    m2 = z3.Int(uid("count"))
                    jj = bvar("j")
                    hz = to_z3(h)
                    st.pc.append(z3.And(m2 >= 0, m2 <= to_z3(bm)))
                    st.pc.append(z3.ForAll([jj], z3.Implies(z3.And(jj >= 0, jj < to_z3(bm)), (bsrc(jj) < hz) == (jj < m2)),
                                           patterns=[bsrc(jj)]))
                    hit = (mask, m2, bsrc, binv)
                    memo = dict(memo)
                    memo[id(mask)] = hit
                    st.ghost["__filters__"] = memo
            if hit is not None:
                _, m, src, inv = hit
                return Seq(m, lambda jj, s=s, src=src: s.at(src(to_z3(jj))), s.kind), (lambda jj: src(to_z3(jj))), (lambda ii: inv(to_z3(ii)))
        # under quantifier-bound variables (comprehension templates) the count and the index maps
        # are functions of those variables, and the defining facts hold for all their values
        bvs = list(self.bound_stack)
        nb = len(bvs)
        if nb:
            mf = z3.Function(uid("count"), *([I] * nb + [I]))
            m = mf(*bvs)
            srcf = z3.Function(uid("src"), *([I] * (nb + 1) + [I]))
            invf = z3.Function(uid("srcinv"), *([I] * (nb + 1) + [I]))
            src = lambda x: srcf(*(bvs + [x]))
            inv = lambda x: invf(*(bvs + [x]))
        else:
            m = z3.Int(uid("count"))
            src = z3.Function(uid("src"), I, I)
            inv = z3.Function(uid("srcinv"), I, I)
        n = to_z3(s.n)
        j = bvar("j")
        i = bvar("i")

        def add(f):
            st.pc.append(z3.ForAll(bvs, f) if nb else f)
        add(z3.And(m >= 0, m <= n))
        add(z3.ForAll([j], z3.Implies(z3.And(j >= 0, j < m),
                                      z3.And(src(j) >= 0, src(j) < n, to_z3(keep(src(j))), inv(src(j)) == j)),
                      patterns=[src(j)]))
        # alternative trigger: a mention of the i-th source element (when that is an uninterpreted application of
        # i), so that a kept element met through another name gets its position in the selection
        pats = [inv(i)]
        try:
            ei = s.at(i)
            if is_z3(ei) and _is_uf_app(ei) and _mentions(ei, i) and _pattern_ok(ei):
                pats.append(ei)
        except Exception:
            pass
        ki0 = to_z3(keep(i))
        if _is_uf_app(ki0) and _mentions(ki0, i) and _pattern_ok(ki0):
            pats.append(ki0)                  # ... or a mention of the selection predicate at i (mask[i])
        add(z3.ForAll([i], z3.Implies(z3.And(i >= 0, i < n, ki0),
                                      z3.And(inv(i) >= 0, inv(i) < m, src(inv(i)) == i)),
                      patterns=pats))
        j2 = bvar("j")
        add(z3.ForAll([j, j2], z3.Implies(z3.And(j >= 0, j < j2, j2 < m), src(j) < src(j2)),
                      patterns=[z3.MultiPattern(src(j), src(j2))]))
        # consequences of the three facts above, stated explicitly (first / last kept index bound
        # every kept index): saves the solver two instantiation chains that it often misses
        add(z3.Implies(m >= 1, z3.And(src(0) >= 0, src(0) <= src(m - 1), src(m - 1) < n,
                                      to_z3(keep(src(0))), to_z3(keep(src(m - 1))))))
        ki = to_z3(keep(i))
        add(z3.ForAll([i], z3.Implies(z3.And(i >= 0, i < n, ki), z3.And(m >= 1, src(0) <= i, i <= src(m - 1))),
                      **({"patterns": [ki]} if _is_uf_app(ki) else {})))
        out = Seq(m, lambda jj, s=s: s.at(src(to_z3(jj))), s.kind)
        if mask is not None and not nb:
            memo = dict(st.ghost.get("__filters__", {}))
            memo[id(mask)] = (mask, m, src, inv)       # the mask object is kept alive: its id stays unique
            st.ghost["__filters__"] = memo
        return out, (lambda jj: src(to_z3(jj))), (lambda ii: inv(to_z3(ii)))

    # comprehensions --------------------------------------------------------
    def expr_ListComp(self, node, st):
        return self.comprehension(node, st, "list")

    def expr_GeneratorExp(self, node, st):
        return self.comprehension(node, st, "gen")

    def expr_SetComp(self, node, st):
        s = self.comprehension(node, st, "list")
        return self.ctx.lib.set_of_seq(self, st, s)

    def expr_DictComp(self, node, st):
        return self.ctx.lib.dict_comp(self, node, st)

    def comprehension(self, node, st, kind, elt=None):
        if len(node.generators) != 1:
            raise EngineError("%s:L%d: nested comprehension outside the subset" % (self.fnname, node.lineno))
        g = node.generators[0]
        src = self.as_seq(self.eval(g.iter, st), st, g.iter)
        elt = elt or node.elt

        def body(i, emit):
            s2 = st.fork() if emit else st
            saved_locals = dict(st.locals)
            saved = self.checking
            if not emit:
                self.checking = False
            try:
                self.assign(g.target, src.at(i), s2)
                conds = [self.truth(self.eval(c, s2)) for c in g.ifs]
                if emit:
                    s2.assume(*conds)
                v = self.eval(elt, s2) if not callable(elt) else elt(s2)
                if emit and s2.pending:
                    st.pending.extend(s2.pending)
            finally:
                self.checking = saved
                if not emit:
                    st.locals.clear()
                    st.locals.update(saved_locals)
            return conds, v

        if getattr(src, "width", None) is not None and not g.ifs:
            # a comprehension over zip(*rows): map the (concretely many) columns
            cache = {}

            def colat(j):
                if not isinstance(j, int):
                    raise EngineError("symbolic index into a column-wise comprehension")
                if j not in cache:
                    cache[j] = body(j, True)[1]
                return cache[j]
            out = Seq(src.n, colat, kind)
            out.width = src.width
            return out
        if src.concrete_len() and src.n <= 64:
            items = []
            for k in range(src.n):
                conds, v = body(k, True)
                c = zand(*conds)
                if c is True:
                    items.append(v)
                elif c is False:
                    continue
                else:
                    raise EngineError("symbolic filter over a concrete-length sequence is outside the subset")
            return Seq.of(items, kind)
        # symbolic length: emit obligations once at a fresh index, then build the lazy sequence
        if self.checking:
            j = z3.Int(uid("c"))
            h = st.fork()
            h.assume(j >= 0, self.cmp_lt(j, src.n))
            saved_pc = st.pc
            st.pc = h.pc
            try:
                body(j, True)
            finally:
                st.pc = saved_pc
        # Template: evaluate the element once at a bound index; when it is a scalar (or a tuple of
        # scalars) every element is that term with the index substituted, so calls inside the element
        # yield one function of the index (with the callee's postcondition for all indices)
        jb = bvar("ci")
        self.binders += 1
        self.bound_stack.append(jb)
        try:
            tconds, tv = body(jb, False)
        finally:
            self.binders -= 1
            self.bound_stack.pop()

        def substitutable(v):
            if isinstance(v, tuple):
                return all(substitutable(x) for x in v)
            if isinstance(v, Seq):
                return True      # element terms are substituted lazily
            return is_scalar(v) or v is None or isinstance(v, str)

        def subst(v, i):
            if isinstance(v, tuple):
                return tuple(subst(x, i) for x in v)
            if isinstance(v, Seq):
                out = Seq(subst(v.n, i), lambda k, v=v: subst(v.at(k), i), v.kind)
                out._ety = v._ety
                return out
            if is_z3(v):
                return z3.substitute(v, (jb, to_z3(as_int(i))))
            return v

        if substitutable(tv) and all(substitutable(c) for c in tconds):
            mapped = Seq(src.n, lambda i: subst(tv, i), kind)
            keep = lambda i: zand(*[subst(c, i) for c in tconds])
        else:
            mapped = Seq(src.n, lambda i: body(i, False)[1], kind)
            keep = lambda i: zand(*body(i, False)[0])
        if g.ifs:
            out, _, _ = self.seq_filter(mapped, keep, st)
            return out
        return mapped

    # calls -----------------------------------------------------------------
    def expr_Call(self, node, st):
        return self.ctx.lib.call(self, node, st)

    def expr_Starred(self, node, st):
        raise EngineError("starred expression outside the subset here")

    def expr_Slice(self, node, st):
        raise EngineError("bare slice outside the subset")


def _has_quantifier(e):
    seen = set()
    todo = [e]
    while todo:
        x = todo.pop()
        if x.get_id() in seen:
            continue
        seen.add(x.get_id())
        if z3.is_quantifier(x):
            return True
        todo.extend(x.children())
    return False


def _is_uf_app(t):
    return z3.is_app(t) and t.decl().kind() == z3.Z3_OP_UNINTERPRETED and t.num_args() >= 1


def _mentions(t, v):
    todo = [t]
    while todo:
        x = todo.pop()
        if x.eq(v):
            return True
        if z3.is_app(x):
            todo.extend(x.children())
    return False


def _pattern_ok(t):
    """Usable as an e-matching pattern: uninterpreted applications and arithmetic-free arguments only."""
    todo = [t]
    while todo:
        x = todo.pop()
        if z3.is_quantifier(x):
            return False
        if z3.is_app(x):
            if x.num_args() > 0 and x.decl().kind() != z3.Z3_OP_UNINTERPRETED:
                return False
            todo.extend(x.children())
    return True


def intro(g, depth=0):
    """Goal splitting: conjunction -> one goal each, forall -> fresh constants, => -> hypothesis."""
    if depth > 12:
        return [([], g)]
    if z3.is_and(g):
        # (proving B under A for a conjunction A and B was tried: sound, but the extra hypotheses slowed more
        # obligations than they helped)
        out = []
        for c in g.children():
            out.extend(intro(c, depth + 1))
        return out
    if z3.is_quantifier(g) and g.is_forall():
        n = g.num_vars()
        vs = [z3.Const(uid(g.var_name(i)), g.var_sort(i)) for i in range(n)]
        body = z3.substitute_vars(g.body(), *reversed(vs))
        return intro(body, depth + 1)
    if z3.is_implies(g):
        a, b = g.children()
        return [([a] + hs, leaf) for hs, leaf in intro(b, depth + 1)]
    if z3.is_true(g):
        return []
    if z3.is_not(g) and z3.is_and(g.arg(0)):
        cs = g.arg(0).children()
        return [(list(cs[:-1]) + hs, leaf) for hs, leaf in intro(z3.Not(cs[-1]), depth + 1)]
    if z3.is_not(g) and z3.is_not(g.arg(0)):
        return intro(g.arg(0).arg(0), depth + 1)
    if z3.is_not(g) and z3.is_or(g.arg(0)):
        out = []
        for c in g.arg(0).children():
            out.extend(intro(z3.Not(c), depth + 1))
        return out
    if z3.is_or(g):
        cs = g.children()
        return [([z3.Not(c) for c in cs[:-1]] + hs, leaf) for hs, leaf in intro(cs[-1], depth + 1)]
    return [([], g)]


def _row_update(row, is_row, c, v):
    return Seq(row.n, lambda k, row=row: zite(zand(is_row, values_equal(k, c)), v, row.at(k)), row.kind)
