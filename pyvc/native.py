"""Native reading of sidecar contracts: run the *real* function from /repo on concrete inputs and
evaluate requires / raises / ensures on the concrete values.

Used for (1) the witness search behind a failed obligation (only an input that makes the real
code violate its contract natively is ever written as a replay input), (2) replay of a recorded
input, (3) the bounded run-time contract check that accompanies every proof (vacuity: at least
one input satisfies each precondition; the contract's native and SMT readings agree on it).
"""
import ast
import copy
import importlib
import importlib.util
import itertools
import json
import os
import sys
import traceback
import types

import numpy as np

from . import spec as specmod


def load_sidecars(contracts_dir):
    ns = {}
    for fn in sorted(os.listdir(contracts_dir)):
        if fn.endswith(".py") and not fn.startswith("_"):
            path = os.path.join(contracts_dir, fn)
            sp = importlib.util.spec_from_file_location("sidecar_" + fn[:-3], path)
            mod = importlib.util.module_from_spec(sp)
            sp.loader.exec_module(mod)
            for k, v in vars(mod).items():
                if not k.startswith("__"):
                    ns[k] = v
    return ns


class _OldRewriter(ast.NodeTransformer):
    def visit_Call(self, node):
        self.generic_visit(node)
        if isinstance(node.func, ast.Name) and node.func.id == "implies" and len(node.args) == 2:
            # lazy implication, so that guarded reads behave as in the SMT reading
            return ast.copy_location(ast.BoolOp(op=ast.Or(), values=[
                ast.UnaryOp(op=ast.Not(), operand=node.args[0]), node.args[1]]), node)
        if isinstance(node.func, ast.Name) and node.func.id == "old" and len(node.args) == 1 and isinstance(node.args[0], ast.Name):
            return ast.copy_location(ast.Subscript(value=ast.Name(id="__old__", ctx=ast.Load()),
                                                   slice=ast.Constant(node.args[0].id), ctx=ast.Load()), node)
        return node


def _compile(expr):
    e = _OldRewriter().visit(copy.deepcopy(expr))
    tree = ast.Expression(e)
    ast.fix_missing_locations(tree)
    return compile(tree, "<contract>", "eval")


def _ints_in(v, out, depth=0):
    if depth > 6:
        return
    if isinstance(v, (bool, np.bool_)):
        return
    if isinstance(v, (int, np.integer)):
        out.add(int(v))
    elif isinstance(v, dict):
        for k, x in v.items():
            _ints_in(k, out, depth + 1)
            _ints_in(x, out, depth + 1)
    elif isinstance(v, (list, tuple, set, frozenset)):
        for x in v:
            _ints_in(x, out, depth + 1)
    elif isinstance(v, np.ndarray) and v.dtype.kind in "iu" and v.size <= 64:
        for x in v.tolist():
            _ints_in(x, out, depth + 1)


def jsonable(v, depth=0):
    if depth > 8:
        return repr(v)
    if isinstance(v, (np.bool_,)):
        return bool(v)
    if isinstance(v, np.integer):
        return int(v)
    if isinstance(v, np.floating):
        return float(v)
    if isinstance(v, np.ndarray):
        return {"__ndarray__": v.tolist(), "dtype": str(v.dtype)}
    if isinstance(v, dict):
        return {"__dict__": [[jsonable(k, depth + 1), jsonable(x, depth + 1)] for k, x in v.items()]}
    if isinstance(v, (set, frozenset)):
        return {"__set__": sorted(jsonable(x, depth + 1) for x in v)}
    if isinstance(v, tuple):
        return {"__tuple__": [jsonable(x, depth + 1) for x in v]}
    if isinstance(v, list):
        return [jsonable(x, depth + 1) for x in v]
    if isinstance(v, (int, float, str, bool)) or v is None:
        return v
    return repr(v)


def unjson(v):
    if isinstance(v, dict):
        if "__ndarray__" in v:
            return np.array(v["__ndarray__"], dtype=v["dtype"])
        if "__dict__" in v:
            return {_hashable(unjson(k)): unjson(x) for k, x in v["__dict__"]}
        if "__set__" in v:
            return set(_hashable(unjson(x)) for x in v["__set__"])
        if "__tuple__" in v:
            return tuple(unjson(x) for x in v["__tuple__"])
        return {k: unjson(x) for k, x in v.items()}
    if isinstance(v, list):
        return [unjson(x) for x in v]
    return v


def _hashable(v):
    if isinstance(v, list):
        return tuple(_hashable(x) for x in v)
    return v


def resolve_function(repo_root, target):
    if repo_root not in sys.path:
        sys.path.insert(0, repo_root)
    modname, qual = target.split(":")
    mod = importlib.import_module(modname)
    obj = mod
    for part in qual.split("."):
        obj = getattr(obj, part)
    return obj


class NativeContract:
    def __init__(self, contract, namespace, repo_root):
        self.c = contract
        self.ns = dict(namespace)
        self.ns.setdefault("np", np)
        self.repo_root = repo_root
        self.requires = [(ast.unparse(e), _compile(e)) for e in contract.requires]
        self.ensures = [(ast.unparse(e), _compile(e)) for e in list(contract.ensures) + list(getattr(contract, "native_ensures", []))]
        self.raises = [(r["exc"], ast.unparse(r["when"]), _compile(r["when"])) for r in contract.raises]

    def _eval(self, code, env):
        g = dict(self.ns)
        g.update(env)      # lambdas inside the clause resolve free names through globals
        return eval(code, g)

    def admissible(self, kwargs):
        env = dict(kwargs)
        env["__old__"] = kwargs
        self._set_universe(kwargs)
        for text, code in self.requires:
            if not self._eval(code, env):
                return False
        return True

    def _set_universe(self, kwargs):
        ints = set()
        _ints_in(kwargs, ints)
        ints |= {0, 1, -1}
        lo, hi = min(ints), max(ints)
        if hi - lo <= 40:
            u = list(range(lo - 1, hi + 2))
        else:
            u = sorted(ints | {x + 1 for x in ints} | {x - 1 for x in ints})
        specmod.UNIVERSE[:] = u

    def run(self, func, kwargs, wrap_result=None):
        """Returns None when the contract holds on this input, else a dict describing the failure.
        Inputs that do not satisfy `requires` return {'skipped': True}."""
        if not self.admissible(kwargs):
            return {"skipped": True}
        old = copy.deepcopy(kwargs)
        args = copy.deepcopy(kwargs)
        exc = None
        result = None
        try:
            result = func(**args)
            if isinstance(result, types.GeneratorType):
                result = list(result)
            if wrap_result:
                result = wrap_result(result)
        except Exception as e:  # noqa
            exc = e
        env = dict(args)
        env["__old__"] = old
        env["result"] = result
        gfn = specmod.NATIVE_GHOSTS.get(self.c.target)
        if gfn is not None and exc is None:
            env.update(gfn(**dict(old, result=result)))
        self._set_universe({"a": old, "b": args, "r": result if not isinstance(result, types.GeneratorType) else None})
        old_env = dict(old)
        old_env["__old__"] = old
        whens = []
        for ename, text, code in self.raises:
            whens.append((ename, text, bool(self._eval(code, old_env))))
        if exc is not None:
            name = type(exc).__name__
            if name in getattr(self.c, "may_raise", []):
                return None                       # tolerated by the contract (partial correctness)
            ok = any(w and (ename == name) for ename, text, w in whens)
            if not ok:
                return {"stage": "exception", "exception": name, "message": str(exc)[:300],
                        "clause": "no exception allowed here" if not any(e == name for e, _, _ in whens)
                        else "raises(%s) only when: %s" % (name, "; ".join(t for e, t, _ in whens if e == name)),
                        "traceback": traceback.format_exception(type(exc), exc, exc.__traceback__)[-3:]}
            return None
        for ename, text, w in whens:
            if w:
                return {"stage": "must-raise", "clause": "raises(%s, when=%s)" % (ename, text), "result": jsonable(result)}
        for k, (text, code) in enumerate(self.ensures):
            try:
                okv = self._eval(code, env)
            except Exception as e:
                return {"stage": "ensures-eval", "clause": text[:300], "error": "%s: %s" % (type(e).__name__, e),
                        "result": jsonable(result)}
            if not okv:
                return {"stage": "ensures", "clause_index": k, "clause": text[:400], "result": jsonable(result)}
        return None


def small_bool_vectors(max_n, min_n=0):
    for n in range(min_n, max_n + 1):
        for bits in itertools.product([False, True], repeat=n):
            yield np.array(bits, dtype=bool)
