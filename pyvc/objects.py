"""Opaque / ghost objects: defaultdict, set unions, flattening, library functions that are not
plain element-wise numpy (interp1d, brentq, splines, quad ...), the sqlite3 cursor and the
ghost database.  Extended per module family; everything here is an *assumed contract* and
registers itself in libspec.TRUSTED."""
import ast
from fractions import Fraction

import z3

from .values import (EngineError, Seq, DictV, SetV, Opaque, I, R, B, uid, is_z3, is_scalar, to_z3,
                     sort_of, as_int, as_real, as_bool, zand, zor, znot, zimp, zite, type_of, fresh,
                     fresh_seq, parse_type, values_equal, key_terms)
from .engine import Builtin, BoundMethod, Closure, RepoFunction, ModuleRef, MaybeNone, State


class Objects:
    def __init__(self, ctx):
        self.ctx = ctx

    def library_function(self, full):
        if full in LIBFUNCS:
            return Builtin(LIBFUNCS[full])
        return None

    def havoc_db(self, ex, st, db):
        return db

    def call_opaque(self, ex, st, fv, args, kwargs, node):
        if fv.kind == "interp1d":
            return self.interp1d_call(ex, st, fv, args[0], node)
        raise EngineError("%s:L%d: call of %r outside the subset" % (ex.fnname, node.lineno, fv))

    def call_method(self, ex, st, obj, bm, args, kwargs, node):
        raise EngineError("%s:L%d: method %s of %r outside the subset" % (ex.fnname, node.lineno, bm.name, obj))

    def index_opaque(self, ex, st, base, node):
        raise EngineError("%s:L%d: subscript of %r outside the subset" % (ex.fnname, node.lineno, base))

    def exec_with(self, ex, node, st):
        raise EngineError("%s:L%d: with-statement outside the subset" % (ex.fnname, node.lineno))

    def defaultdict(self, ex, st, args, node):
        raise EngineError("defaultdict outside the subset")

    def set_union(self, ex, st, s, args, node):
        raise EngineError("set.union outside the subset")

    def flatten(self, ex, st, s, start, node):
        raise EngineError("sum(list-of-lists, []) outside the subset")

    def next_of(self, ex, st, v, node):
        raise EngineError("next() outside the subset")


LIBFUNCS = {
    "scipy.interpolate.interp1d": "sp_interp1d",
    "scipy.optimize.brentq": "sp_brentq",
}


def _install():
    from . import libspec
    L = libspec.Lib

    def b_sp_interp1d(self, ex, st, args, kwargs, node):
        libspec.trusted("scipy.interpolate.interp1d(kind='linear'): the piecewise-linear interpolant of the points; "
                        "ValueError outside [x[0], x[-1]]")
        x = ex.as_seq(args[0], st)
        y = ex.as_seq(args[1], st)
        kind = kwargs.get("kind", "linear")
        ex.oblige(st, kind == "linear", "interp1d-kind-linear", node, "only the linear interpolant is under contract")
        ex.oblige(st, ex.cmp_eq(x.n, y.n), "interp1d-shapes", node)
        ex.oblige(st, ex.cmp_ge(x.n, 2), "interp1d-needs-two-points", node,
                  "scipy >= 1.10: interp1d raises ValueError for fewer than 2 points? (x and y arrays must have at least 2 entries for kind='linear')")
        return Opaque("interp1d", x=x, y=y)

    def b_sp_brentq(self, ex, st, args, kwargs, node):
        libspec.trusted("scipy.optimize.brentq(f, a, b): requires f(a) f(b) <= 0 (else ValueError); returns r between a "
                        "and b with f(r) = 0 (exact root: floats as reals)")
        f, a, b = args[0], as_real(args[1]), as_real(args[2])
        fa = as_real(self.apply(ex, st, f, [a], {}, node))
        fb = as_real(self.apply(ex, st, f, [b], {}, node))
        ex.oblige(st, zor(zand(ex.cmp_le(fa, 0), ex.cmp_ge(fb, 0)), zand(ex.cmp_ge(fa, 0), ex.cmp_le(fb, 0))),
                  "brentq-sign-change", node, "f(a) and f(b) must have different signs")
        r = z3.Real(uid("root"))
        st.assume(zor(zand(ex.cmp_le(a, r), ex.cmp_le(r, b)), zand(ex.cmp_le(b, r), ex.cmp_le(r, a))))
        saved = ex.checking
        ex.checking = False
        try:
            fr = as_real(self.apply(ex, st, f, [r], {}, node))
        finally:
            ex.checking = saved
        st.assume(values_equal(fr, 0))
        return r

    L.b_sp_interp1d = b_sp_interp1d
    L.b_sp_brentq = b_sp_brentq


def _interp1d_call(self, ex, st, fv, xq, node):
    x, y = fv.get("x"), fv.get("y")
    xq = as_real(xq)
    n = to_z3(x.n)
    ex.oblige(st, zand(ex.cmp_le(x.at(0), xq), ex.cmp_le(xq, x.at(x.n - 1))), "interp1d-in-bounds", node)
    if is_z3(xq) and mentions_bound(xq):
        raise EngineError("interp1d evaluated under a bound variable")
    r = z3.Real(uid("interp"))
    i = bvar("i")
    xi, xi1 = to_z3(as_real(x.at(i))), to_z3(as_real(x.at(i + 1)))
    yi, yi1 = to_z3(as_real(y.at(i))), to_z3(as_real(y.at(i + 1)))
    saved = ex.checking
    ex.checking = False
    try:
        lin = ex.scalar_binop(ast.Add(), yi, ex.scalar_binop(ast.Div(), ex.scalar_binop(ast.Mult(), to_z3(xq) - xi, yi1 - yi, st, node),
                                                             xi1 - xi, st, node), st, node)
    finally:
        ex.checking = saved
    st.assume(z3.ForAll([i], z3.Implies(z3.And(i >= 0, i < n - 1, xi <= to_z3(xq), to_z3(xq) <= xi1),
                                        z3.And(r == lin,
                                               z3.Implies(to_z3(xq) == xi, r == yi),
                                               z3.Implies(to_z3(xq) == xi1, r == yi1)))))
    return r


Objects.interp1d_call = _interp1d_call
from .values import bvar, mentions_bound  # noqa
_install()
