"""Opaque / ghost objects: defaultdict, set unions, flattening, library functions that are not
plain element-wise numpy (interp1d, brentq, splines, quad ...), the sqlite3 cursor and the
ghost database.  Extended per module family; everything here is an *assumed contract* and
registers itself in libspec.TRUSTED."""
import ast
from fractions import Fraction

import z3

from .values import (EngineError, Seq, DictV, SetV, Opaque, I, R, B, uid, is_z3, is_scalar, to_z3,
                     sort_of, as_int, as_real, as_bool, zand, zor, znot, zimp, zite, type_of, fresh,
                     fresh_seq, parse_type, values_equal, key_terms)
from .engine import Builtin, BoundMethod, Closure, RepoFunction, ModuleRef, MaybeNone, State


class Objects:
    def __init__(self, ctx):
        self.ctx = ctx

    def library_function(self, full):
        if full in LIBFUNCS:
            return Builtin(LIBFUNCS[full])
        if full == "datetime.timezone.utc":
            return Opaque("tzinfo")
        return None

    def havoc_db(self, ex, st, db):
        if db is None:
            return db
        tables = {}
        for name, seq in db.get("tables").items():
            tables[name] = fresh_seq(seq.ety(), "tbl_" + name, (), None, "list")
            st.assume(to_z3(tables[name].n) >= 0)
        return Opaque("db", sealed=z3.Bool(uid("sealed")), tables=tables)

    # ------------------------------------------------------------------ sqlite3 model
    def db(self, ex, st):
        d = st.ghost.get("__db__")
        if d is None:
            raise EngineError("%s: database access but the contract does not declare db=True" % ex.fnname)
        return d

    def sql_contract(self, ex, sqltext, node):
        if not isinstance(sqltext, str) or sqltext == "<formatted>":
            raise EngineError("%s:L%d: SQL text is not a literal" % (ex.fnname, node.lineno))
        key = " ".join(sqltext.split())
        c = self.ctx.registry.sql.get(key)
        if c is None:
            raise EngineError("%s:L%d: no SQL contract for statement: %s" % (ex.fnname, node.lineno, key[:90]))
        return c

    def cursor_execute(self, ex, st, cur, bm, args, kwargs, node, many=False):
        libspec = self.ctx.lib
        c = self.sql_contract(ex, args[0], node)
        from . import libspec as L
        L.trusted("SQL statement contract %s (assumed; validated against SQLite on small databases by bounded/sqlcheck)" % c.target)
        params = args[1] if len(args) > 1 else None
        db = self.db(ex, st)
        kind = c.options.get("kind", "select")
        fr = State()
        fr.pc = st.pc
        fr.ghost = st.ghost
        fr.locals = {"p": params}
        saved = ex.checking

        def ev(e, extra=None):
            ex.checking = False
            try:
                if extra:
                    fr.locals.update(extra)
                return ex.eval(e, fr)
            finally:
                ex.checking = saved
        if kind == "select":
            rows = fresh(parse_type("list[%s]" % c.options["rows"]), "rows")
            st.assume(to_z3(rows.n) >= 0)
            if c.options.get("one_row"):
                st.assume(ex.cmp_eq(rows.n, 1))
            fr.locals["rows"] = rows
            for e in c.ensures:
                st.assume(ex.truth(ev(e)))
            newcur = cur.updated(rows=rows, one_row=bool(c.options.get("one_row")))
        else:
            # a write: inside one transaction only (C20: no write after the step's commit)
            ex.oblige(st, znot(db.get("sealed")), "write-before-commit", node,
                      "%s on %s after connection.commit() in the same step" % (kind, c.options.get("table")))
            table = c.options.get("table")
            tables = dict(db.get("tables"))
            if "row" in c.options and table:
                lam = c.options["row"]
                if many:
                    src = ex.as_seq(params, st)
                    ety = None
                    def rowat(i, src=src, lam=lam):
                        return ev(lam.body, {lam.args.args[0].arg: src.at(i)})
                    new = Seq(src.n, rowat, "list")
                else:
                    new = Seq.of([ev(lam.body, {lam.args.args[0].arg: params})], "list")
                cur_rows = tables.get(table)
                tables[table] = new if cur_rows is None else ex.seq_concat([cur_rows, new], "list")
            st.ghost["__db__"] = Opaque("db", sealed=db.get("sealed"), tables=tables)
            newcur = cur.updated(rows=None)
        if isinstance(bm.base_node, ast.Name) and isinstance(bm.obj, Opaque) and bm.obj.kind == "cursor":
            self.ctx.lib.writeback(ex, st, bm, newcur)      # cursor.execute(...): the cursor now holds the result rows
        return newcur

    def call_method_db(self, ex, st, obj, bm, args, kwargs, node):
        name = bm.name
        if obj.kind == "connection":
            if name == "cursor":
                return Opaque("cursor", rows=None)
            if name == "commit":
                db = self.db(ex, st)
                st.ghost["__db__"] = Opaque("db", sealed=True, tables=db.get("tables"))
                return None
            if name == "execute":
                return self.cursor_execute(ex, st, Opaque("cursor", rows=None), bm, args, kwargs, node)
            if name == "close":
                return None
        if obj.kind == "cursor":
            if name == "execute":
                return self.cursor_execute(ex, st, obj, bm, args, kwargs, node)
            if name == "executemany":
                return self.cursor_execute(ex, st, obj, bm, args, kwargs, node, many=True)
            if name == "executescript":
                # only the schema script read from SCHEMA_PATH: it creates the (empty) tables of a fresh database
                t = args[0] if args else None
                path = t.get("path") if isinstance(t, Opaque) and t.kind == "filetext" else None
                if not (isinstance(path, Opaque) and path.kind == "module-constant" and path.get("name") == "SCHEMA_PATH"):
                    raise EngineError("%s:L%d: executescript of anything but the schema file outside the subset" % (ex.fnname, node.lineno))
                from . import libspec as L
                L.trusted("cursor.executescript(schema.sql): creates the tables and views of the schema, all empty (CREATE TABLE "
                          "fails if a table exists; that the script contains nothing but CREATE statements is a structural "
                          "obligation, pyvc.structural:schema_obligations)")
                db = self.db(ex, st)
                tables = {tn: fresh_seq(seq.ety(), "tbl_" + tn, (), None, "list", n=0) for tn, seq in db.get("tables").items()}
                st.ghost["__db__"] = Opaque("db", sealed=db.get("sealed"), tables=tables)
                return None
            if name == "fetchone":
                rows = obj.get("rows")
                if rows is None:
                    raise EngineError("%s:L%d: fetchone without a preceding SELECT" % (ex.fnname, node.lineno))
                return MaybeNone(ex.cmp_ge(rows.n, 1), rows.at(0))
            if name == "fetchall":
                rows = obj.get("rows")
                if rows is None:
                    raise EngineError("%s:L%d: fetchall without a preceding SELECT" % (ex.fnname, node.lineno))
                return rows
            if name == "close":
                return None
        raise EngineError("%s:L%d: method %s of %s outside the subset" % (ex.fnname, node.lineno, name, obj.kind))

    def call_opaque(self, ex, st, fv, args, kwargs, node):
        if fv.kind == "interp1d":
            return self.interp1d_call(ex, st, fv, args[0], node)
        if fv.kind == "fn2":
            return fv.get("uf")(to_z3(as_int(args[0])), to_z3(as_int(args[1])))
        if fv.kind == "fn":
            f = fv.get("uf")
            x = args[0]
            if isinstance(x, Seq):
                return Seq(x.n, lambda i: f(to_z3(as_real(x.at(i)))), "array")
            return f(to_z3(as_real(x)))
        if fv.kind == "self":
            rf = self.ctx.method_of(ex, "__call__", fv)
            if rf is not None:
                return self.ctx.lib.call_repo(ex, st, rf, args, kwargs, node)
        raise EngineError("%s:L%d: call of %r outside the subset" % (ex.fnname, node.lineno, fv))

    def call_method(self, ex, st, obj, bm, args, kwargs, node):
        if obj.kind in ("connection", "cursor"):
            return self.call_method_db(ex, st, obj, bm, args, kwargs, node)
        if obj.kind == "tz" and bm.name == "localize":
            from . import libspec as L
            L.trusted("pytz tz.localize(naive): the aware datetime whose UTC instant renders, in that zone, as the given wall "
                      "time (wall_of(zone, instant) = wall); validated on sampled zones / instants by bounded.load_checks:run_C11")
            naive = args[0]
            if not (isinstance(naive, Opaque) and naive.kind == "naive_dt"):
                raise EngineError("localize of a non-datetime")
            inst = z3.Real(uid("instant"))
            wall_of = self.ctx.uf("wall_of", I, I, I)
            st.assume(z3.Implies(z3.IsInt(inst), wall_of(to_z3(obj.get("id")), z3.ToInt(inst)) == naive.get("wall")))
            return Opaque("aware_dt", instant=inst, tzinfo=Opaque("tzinfo"))
        if obj.kind == "file" and bm.name == "read":
            return Opaque("filetext", path=obj.get("path"))
        if obj.kind == "file" and bm.name == "write":
            return None                      # comment / header text: strings are opaque
        if obj.kind == "str" and bm.name in ("lower", "upper", "strip"):
            return obj
        if obj.kind == "str" and bm.name in ("startswith", "endswith"):
            return z3.Bool(uid("strtest"))          # strings are opaque: the test may go either way
        if obj.kind == "tzinfo" and bm.name == "utcoffset":
            return Opaque("timedelta")
        if obj.kind == "aware_dt" and bm.name == "timestamp":
            return obj.get("instant")
        if obj.kind == "aware_dt" and bm.name == "astimezone":
            return obj
        raise EngineError("%s:L%d: method %s of %r outside the subset" % (ex.fnname, node.lineno, bm.name, obj))

    def index_opaque(self, ex, st, base, node):
        if base.kind == "strrow":
            return Opaque("str")
        if base.kind == "yamldoc":
            # a sub-document remembers where it was read (document, keys) and which state of the document it was read
            # in (the state changes whenever a piece of a document is handed to a called function, which may pop keys)
            path = base.get("path")
            sl = node.slice
            if path is not None and isinstance(sl, ast.Constant) and isinstance(sl.value, (str, int)):
                return Opaque("yamldoc", path=path + (repr(sl.value),), ver=st.ghost.get("__yamlver__", 0))
            return Opaque("yamldoc")
        if base.kind == "argwhere":
            idx = base.get("idx")
            sl = node.slice
            if isinstance(sl, ast.Tuple) and len(sl.elts) == 2:
                r, c = sl.elts
                if isinstance(r, ast.Slice) and r.lower is None and r.upper is None:
                    return idx                                # a[:, 0]
                rv = ex.eval(r, st)
                if isinstance(rv, int) and rv == 0:
                    ex.oblige(st, ex.cmp_ge(idx.n, 1), "nonempty-argwhere", node, "no element matches")
                    return idx.at(0)                          # a[0, 0]
        raise EngineError("%s:L%d: subscript of %r outside the subset" % (ex.fnname, node.lineno, base))

    def exec_with(self, ex, node, st):
        """`with open(path, mode) as f:` only: f is an opaque file whose read() is an opaque text."""
        if len(node.items) != 1:
            raise EngineError("%s:L%d: with-statement with several items outside the subset" % (ex.fnname, node.lineno))
        item = node.items[0]
        v = ex.eval(item.context_expr, st)
        if not (isinstance(v, Opaque) and v.kind == "file"):
            raise EngineError("%s:L%d: with-statement over anything but open(...) outside the subset" % (ex.fnname, node.lineno))
        if item.optional_vars is not None:
            ex.assign(item.optional_vars, v, st)
        return ex.exec_block(node.body, [st])

    def defaultdict(self, ex, st, args, node):
        """collections.defaultdict(list): an empty dictionary whose missing keys read as []."""
        from .engine import Builtin
        if len(args) != 1 or not (isinstance(args[0], Builtin) and args[0].name == "list"):
            raise EngineError("%s:L%d: defaultdict of anything but list outside the subset" % (ex.fnname, node.lineno))
        return DictV(lambda k: False, lambda k: None, 0, "any", "any", default=Seq.of([], "list"))

    def set_union(self, ex, st, s, args, node):
        """set().union(*X) for a sequence X of integer sequences: e is a member iff some X[j][p] equals e.
        The size is an unspecified natural number, positive iff there is a member; zero when X is empty
        (only the empty receiver set is supported)."""
        from .libspec import Star
        if not (isinstance(s.size, int) and s.size == 0) or len(args) != 1 or not isinstance(args[0], Star):
            raise EngineError("%s:L%d: set.union other than set().union(*sequences) outside the subset" % (ex.fnname, node.lineno))
        X = ex.as_seq(args[0].value, st)
        if ex.bound_stack:
            raise EngineError("set.union under a bound variable")
        mem = z3.Function(uid("inunion"), I, B)
        wj = z3.Function(uid("unionwit_j"), I, I)
        wp = z3.Function(uid("unionwit_p"), I, I)
        k, j, p = bvar("k"), bvar("j"), bvar("p")
        n = to_z3(X.n)
        inner_w = ex.as_seq(X.at(wj(k)), st)
        st.assume(z3.ForAll([k], mem(k) == z3.And(wj(k) >= 0, wj(k) < n, wp(k) >= 0, wp(k) < to_z3(inner_w.n),
                                                  to_z3(as_int(inner_w.at(wp(k)))) == k), patterns=[mem(k)]))
        inner_j = ex.as_seq(X.at(j), st)
        ejp = to_z3(as_int(inner_j.at(p)))
        body = z3.Implies(z3.And(j >= 0, j < n, p >= 0, p < to_z3(inner_j.n)), mem(ejp))
        from .libspec import _valid_pattern
        try:
            # trigger: a mention of the element itself (an uninterpreted application of both positions)
            st.assume(z3.ForAll([j, p], body, **({"patterns": [ejp]} if _valid_pattern(ejp) else {})))
        except z3.Z3Exception:
            st.assume(z3.ForAll([j, p], body))
        size = z3.Int(uid("setsize"))
        wit0 = z3.Int(uid("member0"))
        st.assume(size >= 0, z3.Implies(size >= 1, mem(wit0)), z3.ForAll([k], z3.Implies(mem(k), size >= 1), patterns=[mem(k)]))
        return SetV(lambda kk: mem(to_z3(as_int(kk))), size, "int")

    def flatten(self, ex, st, s, start, node):
        """sum(seq-of-lists, []) where every inner list has the same concrete length w:
        element i of the result is element i % w of inner list i // w."""
        if isinstance(start, tuple):
            start = Seq.of(list(start), "list")
        if not (start.concrete_len() and start.n == 0):
            raise EngineError("%s:L%d: sum(lists, start) with a non-empty start outside the subset" % (ex.fnname, node.lineno))
        probe = s.at(bvar("p")) if not s.concrete_len() else (s.at(0) if s.n else None)
        if probe is None:
            return Seq.of([], "list")
        if isinstance(probe, tuple):
            w = len(probe)
            inner = lambda q, r: s.at(q)[r]
        elif isinstance(probe, Seq) and probe.concrete_len():
            w = probe.n
            inner = lambda q, r: s.at(q).at(r)
        else:
            raise EngineError("%s:L%d: sum(list-of-lists, []) with inner lists of unknown length outside the subset" % (ex.fnname, node.lineno))
        if w == 0:
            return Seq.of([], "list")
        if s.concrete_len():
            return Seq.of([inner(q, r) for q in range(s.n) for r in range(w)], "list")

        def elem(i):
            if isinstance(i, int):
                return inner(i // w, i % w)
            iz = to_z3(i)
            q = iz / w
            out = inner(q, w - 1)
            for r in range(w - 2, -1, -1):
                out = zite(iz % w == r, inner(q, r), out)
            return out
        return Seq(to_z3(s.n) * w, elem, "list")

    def next_of(self, ex, st, v, node):
        """next(csv reader): the header row (opaque strings); StopIteration on an empty file is tolerated only if the
        contract declares it."""
        if isinstance(v, Opaque) and v.kind == "csvreader":
            return Opaque("strrow")
        raise EngineError("%s:L%d: next() of %r outside the subset" % (ex.fnname, node.lineno, v))


def antiderivative_of(ctx, clo):
    """The antiderivative that scipy.integrate.quad's assumed contract refers to, per integrand object."""
    if isinstance(clo, Closure):
        if not hasattr(clo, "_quadF"):
            clo._quadF = Opaque("fn", uf=z3.Function(uid("quad_F"), R, R))
        return clo._quadF
    if isinstance(clo, BoundMethod) or isinstance(clo, RepoFunction):
        key = ("quadF", getattr(clo, "name", None), id(getattr(clo, "obj", None) or getattr(clo, "receiver", None)))
        memo = ctx.__dict__.setdefault("_quadF_memo", {})
        if key not in memo:
            memo[key] = Opaque("fn", uf=z3.Function(uid("quad_F"), R, R))
        return memo[key]
    raise EngineError("antiderivative of %r" % (clo,))


LIBFUNCS = {
    "yaml.safe_load": "yaml_safe_load",
    "yaml.dump": "yaml_dump",
    "pytz.timezone": "pytz_timezone",
    "csv.reader": "csv_reader",
    "datetime.datetime.strptime": "dt_strptime",
    "datetime.datetime.fromtimestamp": "dt_fromtimestamp",
    "scipy.stats.norm.cdf": "sp_normcdf",
    "scipy.integrate.quad": "sp_quad",
    "scipy.interpolate.splev": "sp_splev",
    "scipy.interpolate.splint": "sp_splint",
    "scipy.interpolate.splrep": "sp_splrep",
    "scipy.interpolate.interp1d": "sp_interp1d",
    "scipy.optimize.brentq": "sp_brentq",
}


def _install():
    from . import libspec
    L = libspec.Lib

    def b_yaml_safe_load(self, ex, st, args, kwargs, node):
        """yaml.safe_load(file): an opaque document; subscripting it gives opaque sub-documents."""
        n = st.ghost.get("__yamldocs__", 0)
        st.ghost["__yamldocs__"] = n + 1
        return Opaque("yamldoc", path=("doc%d" % n,), ver=st.ghost.get("__yamlver__", 0))

    def b_yaml_dump(self, ex, st, args, kwargs, node):
        """yaml.dump(value, file): the value is recorded, in order, as what the function wrote (ghost `dumped`)."""
        if len(args) != 2 or not (isinstance(args[1], Opaque) and args[1].kind == "file"):
            raise EngineError("%s:L%d: yaml.dump other than yaml.dump(value, file) outside the subset" % (ex.fnname, node.lineno))
        st.ghost["__dumped__"] = list(st.ghost.get("__dumped__", [])) + [args[0]]
        return None

    L.b_yaml_safe_load = b_yaml_safe_load
    L.b_yaml_dump = b_yaml_dump

    def b_pytz_timezone(self, ex, st, args, kwargs, node):
        return Opaque("tz", id=z3.Int(uid("zone")))

    def b_csv_reader(self, ex, st, args, kwargs, node):
        """csv.reader(file): after the header, the remaining rows (texts and values modelled by integer identities,
        as in the contract of generate_timestamped_rows)."""
        rows = fresh(parse_type("list[list[int]]"), "csvrows")
        st.assume(to_z3(rows.n) >= 0)
        return Opaque("csvreader", rows=rows)

    def b_open(self, ex, st, args, kwargs, node):
        return Opaque("file", path=args[0])

    L.b_pytz_timezone = b_pytz_timezone
    L.b_csv_reader = b_csv_reader
    L.b_open = b_open

    def b_sp_interp1d(self, ex, st, args, kwargs, node):
        libspec.trusted("scipy.interpolate.interp1d(kind='linear'): the piecewise-linear interpolant of the points; "
                        "ValueError outside [x[0], x[-1]]")
        x = ex.as_seq(args[0], st)
        y = ex.as_seq(args[1], st)
        kind = kwargs.get("kind", "linear")
        ex.oblige(st, kind == "linear", "interp1d-kind-linear", node, "only the linear interpolant is under contract")
        ex.oblige(st, ex.cmp_eq(x.n, y.n), "interp1d-shapes", node)
        ex.oblige(st, ex.cmp_ge(x.n, 2), "interp1d-needs-two-points", node,
                  "scipy >= 1.10: interp1d raises ValueError for fewer than 2 points? (x and y arrays must have at least 2 entries for kind='linear')")
        return Opaque("interp1d", x=x, y=y)

    def b_sp_brentq(self, ex, st, args, kwargs, node):
        libspec.trusted("scipy.optimize.brentq(f, a, b): requires f(a) f(b) <= 0 (else ValueError); returns r between a "
                        "and b with f(r) = 0 (exact root: floats as reals)")
        f, a, b = args[0], as_real(args[1]), as_real(args[2])
        fa = as_real(self.apply(ex, st, f, [a], {}, node))
        fb = as_real(self.apply(ex, st, f, [b], {}, node))
        ex.oblige(st, zor(zand(ex.cmp_le(fa, 0), ex.cmp_ge(fb, 0)), zand(ex.cmp_ge(fa, 0), ex.cmp_le(fb, 0))),
                  "brentq-sign-change", node, "f(a) and f(b) must have different signs")
        r = z3.Real(uid("root"))
        st.assume(zor(zand(ex.cmp_le(a, r), ex.cmp_le(r, b)), zand(ex.cmp_le(b, r), ex.cmp_le(r, a))))
        saved = ex.checking
        ex.checking = False
        try:
            fr = as_real(self.apply(ex, st, f, [r], {}, node))
        finally:
            ex.checking = saved
        st.assume(values_equal(fr, 0))
        return r

    def b_sp_splev(self, ex, st, args, kwargs, node):
        libspec.trusted("scipy splev(x, tck): the value S_tck(x) of the spline (uninterpreted function of the "
                        "coefficient identity and x)")
        x, tck = args[0], args[1]
        der = kwargs.get("der", args[2] if len(args) > 2 else 0)
        if not (isinstance(der, int) and der == 0) and not (is_z3(der) and ex.implied(st, der == 0)):
            raise EngineError("splev with der != 0 is outside the subset")
        S = self.ctx.uf("splev", I, R, R)
        cid = to_z3(as_int(tck[1]))
        if isinstance(x, Seq):
            return Seq(x.n, lambda i: S(cid, to_z3(as_real(x.at(i)))), "array")
        return S(cid, to_z3(as_real(x)))

    def b_sp_splint(self, ex, st, args, kwargs, node):
        libspec.trusted("scipy splint(a, b, tck) = F_tck(clamp b) - F_tck(clamp a) for an antiderivative F of the "
                        "spline on its knot range (FITPACK treats the spline as zero outside the knots)")
        a, b, tck = as_real(args[0]), as_real(args[1]), args[2]
        F = self.ctx.uf("splint_F", I, R, R)
        cid = to_z3(as_int(tck[1]))
        t = tck[0]
        lo, hi = as_real(t.at(0)), as_real(t.at(t.n - 1))
        clamp = lambda v: zite(ex.cmp_lt(v, lo), lo, zite(ex.cmp_gt(v, hi), hi, v))
        return F(cid, to_z3(clamp(b))) - F(cid, to_z3(clamp(a)))

    def b_sp_quad(self, ex, st, args, kwargs, node):
        libspec.trusted("scipy.integrate.quad(f, a, b)[0] = Q(b) - Q(a) for an antiderivative Q of the function it is "
                        "passed (exact integral: quadrature error not modelled); f is evaluated at interior points of (a, b) only")
        f, a, b = args[0], as_real(args[1]), as_real(args[2])
        for kw in kwargs:
            if kw != "points":
                raise EngineError("%s:L%d: quad(..., %s=) outside the subset" % (ex.fnname, node.lineno, kw))
        if kwargs.get("points") is not None:
            # breakpoints only steer the subdivision (QAGP); the value is still the integral over [a, b]
            pts = ex.as_seq(kwargs["points"], st)
            if not pts.concrete_len() or pts.n:
                q = bvar("q")
                pq = to_z3(as_real(pts.at(q)))
                ex.oblige(st, z3.ForAll([q], z3.Implies(z3.And(q >= 0, q < to_z3(pts.n)),
                                                        z3.Or(z3.And(to_z3(a) <= pq, pq <= to_z3(b)), z3.And(to_z3(b) <= pq, pq <= to_z3(a))))),
                          "quad-breakpoints-inside", node)
        # f is evaluated at points between a and b: its safety obligations at an arbitrary such point
        if ex.checking:
            zp = z3.Real(uid("quadpt"))
            h = st.fork()
            # Gauss-Kronrod nodes are interior points: f is needed on the open interval only
            h.assume(zor(zand(ex.cmp_lt(a, zp), ex.cmp_lt(zp, b)), zand(ex.cmp_lt(b, zp), ex.cmp_lt(zp, a))))
            self.apply(ex, h, f, [zp], {}, node)
            for pc_at, cond, exc in h.pending:
                ex.oblige(h, znot(cond) if not isinstance(cond, bool) else (not cond), "quad-integrand-raises[%s]" % exc, node)
        Q = antiderivative_of(self.ctx, f).get("uf")
        return (Q(to_z3(b)) - Q(to_z3(a)), z3.Real(uid("quaderr")))

    def b_sp_normcdf(self, ex, st, args, kwargs, node):
        libspec.trusted("scipy.stats.norm.cdf(x, loc=0, scale=sd): uninterpreted function normcdf(x, sd) with values in [0, 1]")
        x = args[0]
        loc = kwargs.get("loc", 0)
        sd = as_real(kwargs.get("scale", 1))
        if not (isinstance(loc, int) and loc == 0):
            raise EngineError("norm.cdf with loc != 0 outside the subset")
        f = self.ctx.uf("normcdf", R, R, R)
        if not st.ghost.get("normcdf_range"):
            st.ghost["normcdf_range"] = True
            a, b = z3.Real(uid("a")), z3.Real(uid("b"))
            from .values import BOUND
            BOUND.add(a.decl().name()); BOUND.add(b.decl().name())
            st.pc.append(z3.ForAll([a, b], z3.And(f(a, b) >= 0, f(a, b) <= 1), patterns=[f(a, b)]))
        if isinstance(x, Seq):
            return Seq(x.n, lambda i: f(to_z3(as_real(x.at(i))), to_z3(sd)), "array")
        return f(to_z3(as_real(x)), to_z3(sd))

    def b_dt_strptime(self, ex, st, args, kwargs, node):
        libspec.trusted("datetime.strptime(text, '%Y-%m-%d %H:%M:%S'): the naive wall-clock time written in the text "
                        "(uninterpreted function parse_wall of the text)")
        fmt = args[1]
        if fmt != "%Y-%m-%d %H:%M:%S":
            raise EngineError("strptime with another format than ISO_8601_FORMAT is outside the subset")
        return Opaque("naive_dt", wall=self.ctx.uf("parse_wall", I, I)(to_z3(as_int(args[0]))))

    def b_dt_fromtimestamp(self, ex, st, args, kwargs, node):
        return Opaque("aware_dt", instant=as_real(args[0]), tzinfo=Opaque("tzinfo"))

    L.b_dt_fromtimestamp = b_dt_fromtimestamp
    L.b_dt_strptime = b_dt_strptime
    L.b_sp_normcdf = b_sp_normcdf
    L.b_sp_quad = b_sp_quad
    L.b_sp_splev = b_sp_splev
    L.b_sp_splint = b_sp_splint
    L.b_sp_interp1d = b_sp_interp1d
    L.b_sp_brentq = b_sp_brentq


def _interp1d_call(self, ex, st, fv, xq, node):
    x, y = fv.get("x"), fv.get("y")
    xq = as_real(xq)
    n = to_z3(x.n)
    ex.oblige(st, zand(ex.cmp_le(x.at(0), xq), ex.cmp_le(xq, x.at(x.n - 1))), "interp1d-in-bounds", node)
    if is_z3(xq) and mentions_bound(xq):
        raise EngineError("interp1d evaluated under a bound variable")
    r = z3.Real(uid("interp"))
    i = bvar("i")
    xi, xi1 = to_z3(as_real(x.at(i))), to_z3(as_real(x.at(i + 1)))
    yi, yi1 = to_z3(as_real(y.at(i))), to_z3(as_real(y.at(i + 1)))
    saved = ex.checking
    ex.checking = False
    try:
        lin = ex.scalar_binop(ast.Add(), yi, ex.scalar_binop(ast.Div(), ex.scalar_binop(ast.Mult(), to_z3(xq) - xi, yi1 - yi, st, node),
                                                             xi1 - xi, st, node), st, node)
    finally:
        ex.checking = saved
    st.assume(z3.ForAll([i], z3.Implies(z3.And(i >= 0, i < n - 1, xi <= to_z3(xq), to_z3(xq) <= xi1),
                                        z3.And(r == lin,
                                               z3.Implies(to_z3(xq) == xi, r == yi),
                                               z3.Implies(to_z3(xq) == xi1, r == yi1)))))
    return r


Objects.interp1d_call = _interp1d_call
from .values import bvar, mentions_bound  # noqa
_install()
