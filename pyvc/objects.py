"""Opaque / ghost objects: defaultdict, set unions, flattening, library functions that are not
plain element-wise numpy (interp1d, brentq, splines, quad ...), the sqlite3 cursor and the
ghost database.  Extended per module family; everything here is an *assumed contract* and
registers itself in libspec.TRUSTED."""
import ast
from fractions import Fraction

import z3

from .values import (EngineError, Seq, DictV, SetV, Opaque, I, R, B, uid, is_z3, is_scalar, to_z3,
                     sort_of, as_int, as_real, as_bool, zand, zor, znot, zimp, zite, type_of, fresh,
                     fresh_seq, parse_type, values_equal, key_terms)
from .engine import Builtin, BoundMethod, Closure, RepoFunction, ModuleRef, MaybeNone, State


class Objects:
    def __init__(self, ctx):
        self.ctx = ctx

    def library_function(self, full):
        return None

    def havoc_db(self, ex, st, db):
        return db

    def call_opaque(self, ex, st, fv, args, kwargs, node):
        raise EngineError("%s:L%d: call of %r outside the subset" % (ex.fnname, node.lineno, fv))

    def call_method(self, ex, st, obj, bm, args, kwargs, node):
        raise EngineError("%s:L%d: method %s of %r outside the subset" % (ex.fnname, node.lineno, bm.name, obj))

    def index_opaque(self, ex, st, base, node):
        raise EngineError("%s:L%d: subscript of %r outside the subset" % (ex.fnname, node.lineno, base))

    def exec_with(self, ex, node, st):
        raise EngineError("%s:L%d: with-statement outside the subset" % (ex.fnname, node.lineno))

    def defaultdict(self, ex, st, args, node):
        raise EngineError("defaultdict outside the subset")

    def set_union(self, ex, st, s, args, node):
        raise EngineError("set.union outside the subset")

    def flatten(self, ex, st, s, start, node):
        raise EngineError("sum(list-of-lists, []) outside the subset")

    def next_of(self, ex, st, v, node):
        raise EngineError("next() outside the subset")
