#!/usr/bin/env python3
"""Run every bounded stand-in / validation at a tier over several seeds on the current /repo and report failures
(the proofs do not depend on the seed; this looks for alarms of the randomised stand-ins on the unchanged tree).
usage: .venv/bin/python tools/bounded_sweep.py [tier] [seeds...]"""
import importlib, json, multiprocessing as mp, os, re, sys, time, traceback
HERE = os.path.dirname(os.path.dirname(os.path.abspath(__file__)))
sys.path.insert(0, HERE)


def work(job):
    pid, run, tier, seed = job
    t0 = time.time()
    try:
        modname, fn = run.split(":")
        res = getattr(importlib.import_module(modname), fn)(os.environ.get("SPOWTD_REPO", "/repo"), tier, seed)
        fails = [(f.get("key"), str(f.get("observed"))[:160]) for f in res.get("failures", [])]
        return pid, run, seed, fails, res.get("evaluations"), time.time() - t0
    except Exception:
        return pid, run, seed, [("CRASH", traceback.format_exc()[-400:])], 0, time.time() - t0


if __name__ == "__main__":
    import props
    tier = sys.argv[1] if len(sys.argv) > 1 else "thorough"
    seeds = [int(x) for x in sys.argv[2:]] or [0, 1, 2, 3]
    known = [re.compile(f["match"]) for f in json.load(open(os.path.join(HERE, "known_findings.json"))).get("findings", [])]
    jobs = [(pid, b["run"], tier, s) for pid, cfg in sorted(props.PROPS.items()) for b in cfg.get("bounded", []) for s in seeds]
    bad = 0
    with mp.get_context("fork").Pool(12) as pool:
        for pid, run, seed, fails, ev, secs in pool.imap_unordered(work, jobs):
            fails = [f for f in fails if not any(k.search("bounded:%s:%s" % (run, f[0])) for k in known)]
            print("%s %s seed=%d evaluations=%s %.0fs %s" % (pid, run, seed, ev, secs, "OK" if not fails else "FAILURES %r" % fails), flush=True)
            bad += bool(fails)
    print("sweeps with failures:", bad)
