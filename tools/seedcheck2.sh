#!/bin/bash
# usage: tools/seedcheck2.sh <seed dir> <prefix e.g. C05> <k> <worktree> "<check ids>" "<test files>"
SD=$1; P=$2; K=$3; WT=$4; CHECKS=$5; TESTS=$6
cd $WT && git checkout -q -- . && /venv/bin/python $SD/${P}_demo$K.py $WT >/dev/null 2>&1; A=$?
git apply $SD/${P}_patch$K.diff && /venv/bin/python $SD/${P}_demo$K.py $WT >/dev/null 2>&1; B=$?
timeout 1800 /venv/bin/python -m pytest -q -p no:cacheprovider $TESTS >/tmp/seedtests.log 2>&1; T=$?
git checkout -q -- .
echo "tests with change: $(tail -1 /tmp/seedtests.log)"
echo "demo without change: exit $A (want 0); with change: exit $B (want 1)"
cd /repo && git apply $SD/${P}_patch$K.diff || { echo "patch does not apply to /repo"; exit 9; }
cd /verif
for c in $CHECKS; do
  out=$(./check $c 2>&1); rc=$?
  echo "check $c -> exit $rc: $(echo "$out" | grep -c VIOLATION) VIOLATION lines; first: $(echo "$out" | grep -m1 -E 'VIOLATION|OK|CHECKER' | cut -c1-170)"
done
git -C /repo checkout -q -- .
