#!/bin/bash
# usage: tools/seedcheck3.sh <out dir> <prop e.g. C05> <k> <scratch worktree>
# Confirms a candidate seeded change in a scratch worktree (demo exits 0 clean / 1 changed; whole test suite with the
# change: the baseline is "8 failed, 48 passed") and runs the property's check with SPOWTD_REPO pointing at the changed
# worktree (parallel-safe first look; the recorded run is tools/reseed.sh on /repo itself).
SD=$1; P=$2; K=$3; WT=$4
cd $WT && git checkout -q -- . && /venv/bin/python $SD/${P}_demo$K.py $WT >/dev/null 2>&1; A=$?
git apply $SD/${P}_patch$K.diff || { echo "$P-$K: patch does not apply"; exit 9; }
/venv/bin/python $SD/${P}_demo$K.py $WT >/tmp/seed_${P}_$K.demo 2>&1; B=$?
( timeout 1800 /venv/bin/python -m pytest -q -p no:cacheprovider --timeout=900 spowtd/test 2>&1 | tail -12 > /tmp/seed_${P}_$K.tests ) &
cd /verif
t0=$(date +%s)
out=$(SPOWTD_REPO=$WT ./check $P 2>&1); rc=$?
t1=$(date +%s)
wait
echo "$P-$K: demo clean=$A (want 0) changed=$B (want 1); tests: $(tail -1 /tmp/seed_${P}_$K.tests); failing: $(grep -c '^FAILED' /tmp/seed_${P}_$K.tests)"
echo "$P-$K: check exit=$rc in $((t1-t0))s; $(echo "$out" | grep -c VIOLATION) VIOLATION line(s); first: $(echo "$out" | grep -m1 -E 'VIOLATION|OK|CHECKER' | cut -c1-200)"
echo "$out" > /tmp/seed_${P}_$K.check
cd $WT && git checkout -q -- .
