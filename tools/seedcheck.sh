#!/bin/bash
# usage: tools/seedcheck.sh <seed dir> <k> <worktree> "<check ids>"
# 1. confirms the demonstration in the scratch worktree (fails with the change, passes without, tests pass with it)
# 2. applies the change to /repo, runs the named checks, undoes it straight afterwards
SD=$1; K=$2; WT=$3; CHECKS=$4
cd $WT && git checkout -q -- . && /venv/bin/python $SD/demo$K.py $WT >/dev/null 2>&1; A=$?
git apply $SD/patch$K.diff && /venv/bin/python $SD/demo$K.py $WT >/dev/null 2>&1; B=$?
T=skipped
if [ -z "$SKIPTESTS" ]; then timeout 900 /venv/bin/python -m pytest -q -p no:cacheprovider ${TESTS:-spowtd/test/test_classify.py spowtd/test/test_load.py spowtd/test/test_cli.py} >/tmp/seedtests.log 2>&1; T=$?; fi
git checkout -q -- .
echo "tests: $(tail -1 /tmp/seedtests.log 2>/dev/null)"; echo "demo without change: exit $A (want 0); with change: exit $B (want 1); tests with change: exit $T (want 0)"
cd /repo && git apply $SD/patch$K.diff || { echo "patch does not apply to /repo"; exit 9; }
cd /verif
for c in $CHECKS; do
  out=$(./check $c 2>&1); rc=$?
  echo "check $c -> exit $rc: $(echo "$out" | grep -c VIOLATION) VIOLATION lines; first: $(echo "$out" | grep -m1 -E 'VIOLATION|OK|CHECKER' | cut -c1-160)"
done
git -C /repo checkout -q -- .
