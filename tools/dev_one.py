"""Developer loop: discharge the obligations of one target in parallel, printing each verdict.
usage: .venv/bin/python tools/dev_one.py <target> [timeout_ms] [workers] [name-filter]"""
import multiprocessing as mp
import os
import sys
import time

HERE = os.path.dirname(os.path.dirname(os.path.abspath(__file__)))
sys.path.insert(0, HERE)


def work(job):
    target, tmo, k, n, flt = job
    from pyvc.verifier import Verifier
    from pyvc.solve import discharge
    from pyvc import check
    v = Verifier(check.REPO, check.CONTRACTS)
    ex, obls = v.vc(target)
    out = []
    for i, o in enumerate(obls):
        if i % n != k or (flt and flt not in o.name):
            continue
        t0 = time.time()
        r = discharge(o, tmo, use_cvc5=False)
        out.append((i, o.name, r["status"], round(time.time() - t0, 1), r["backend"][:50], (o.note or "")[:160]))
        if r["status"] != "proved":
            print("   .. %s %s %.1fs" % (r["status"], o.name, time.time() - t0), flush=True)
    return out


if __name__ == "__main__":
    target = sys.argv[1]
    tmo = int(sys.argv[2]) if len(sys.argv) > 2 else 5000
    n = int(sys.argv[3]) if len(sys.argv) > 3 else 16
    flt = sys.argv[4] if len(sys.argv) > 4 else None
    from pyvc.verifier import Verifier
    from pyvc.values import EngineError
    from pyvc import check
    try:
        ex, obls = Verifier(check.REPO, check.CONTRACTS).vc(target)
    except EngineError as e:
        print("ENGINE ERROR:", e)
        sys.exit(2)
    print("obligations:", len(obls), "trivial:", ex.trivial)
    t0 = time.time()
    with mp.Pool(n) as pool:
        res = [r for part in pool.map(work, [(target, tmo, k, n, flt) for k in range(n)]) for r in part]
    res.sort()
    bad = [r for r in res if r[2] != "proved"]
    for r in bad:
        print("%-8s #%d %s (%.1fs)\n      %s" % (r[2], r[0], r[1], r[3], r[5]))
    print("%d obligations, %d not proved, wall %.1fs" % (len(res), len(bad), time.time() - t0))
