#!/bin/bash
# run every claimed check (quick by default) and summarise; usage: tools/run_all.sh [quick|thorough]
cd "$(dirname "$0")/.."
TIER=${1:-quick}
ids=$(python3 -c "import json;print(' '.join(c['property_id'] for c in json.load(open('MANIFEST.json'))['checks']))")
for id in $ids; do
  ( out=$(./check $id --tier $TIER 2>&1); rc=$?; echo "$id exit=$rc $(echo "$out" | tail -1 | cut -c1-170)" ) &
  while [ $(jobs -r | wc -l) -ge 3 ]; do sleep 0.5; done
done
wait
