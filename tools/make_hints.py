#!/usr/bin/env python3
"""Record proof hints (unsat cores) for every obligation of every claimed target: run with a large
budget once; later runs try the recorded hypothesis subset first.  Usage: tools/make_hints.py [target ...]"""
import json, multiprocessing as mp, os, sys, time
HERE = os.path.dirname(os.path.dirname(os.path.abspath(__file__)))
sys.path.insert(0, HERE)


def work(target):
    from pyvc.verifier import Verifier
    from pyvc.solve import discharge
    from pyvc.values import EngineError
    v = Verifier(os.environ.get("SPOWTD_REPO", "/repo"), os.path.join(HERE, "contracts"))
    rec = {}
    try:
        ex, obls = v.vc(target)
    except EngineError as e:
        return target, rec, "engine error: %s" % e
    bad = []
    for o in obls:
        r = discharge(o, 90000, use_cvc5=False, record=rec)
        if r["status"] != "proved":
            bad.append(o.name)
    return target, rec, bad


if __name__ == "__main__":
    import props
    targets = sys.argv[1:] or sorted({t for cfg in props.PROPS.values() for t in cfg.get("targets", [])})
    path = os.path.join(HERE, "proof_hints.json")
    try:
        hints = json.load(open(path))
    except Exception:
        hints = {}
    with mp.get_context("fork").Pool(min(16, len(targets))) as pool:
        for target, rec, bad in pool.imap_unordered(work, targets):
            hints.update(rec)
            print(target, "new hints:", len(rec), "unproved:", bad)
    json.dump(hints, open(path, "w"), indent=0, sort_keys=True)
    print("hints:", len(hints))
