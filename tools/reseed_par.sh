#!/bin/bash
# usage: tools/reseed_par.sh <parallelism> <seed id> ...   -- re-runs the property check of each stored seed against a
# scratch worktree of /repo with the seed applied (SPOWTD_REPO), several at a time; /repo itself is not touched.
# One line per seed.  (The recorded, by-the-book run is tools/reseed.sh, which applies the patch to /repo itself.)
N=$1; shift
one() {
  id=$1; prop=${id%-*}; wt=/tmp/rs_$id
  git -C /repo worktree add -q --detach $wt HEAD 2>/dev/null || { echo "$id: no worktree"; return; }
  if git -C $wt apply /verif/seeded/$id/patch.diff 2>/dev/null; then
    t0=$(date +%s); out=$(cd /verif && SPOWTD_REPO=$wt ./check $prop 2>&1); rc=$?; t1=$(date +%s)
    echo "$id: exit=$rc $(echo "$out" | grep -c VIOLATION) violation line(s) in $((t1-t0))s; first: $(echo "$out" | grep -m1 -E 'VIOLATION|OK|CHECKER' | cut -c1-150)"
  else
    echo "$id: patch does not apply"
  fi
  git -C /repo worktree remove --force $wt
}
for id in "$@"; do
  one $id &
  while [ $(jobs -r | wc -l) -ge $N ]; do sleep 1; done
done
wait
