#!/bin/bash
# re-run the property check of each named seed on /repo with the seed applied; prints one line per seed
cd /verif
for d in "$@"; do
  id=$(basename $d); prop=${id%-*}
  git -C /repo apply /verif/seeded/$id/patch.diff 2>/dev/null || { echo "$id: patch does not apply"; continue; }
  t0=$(date +%s)
  out=$(./check $prop 2>&1); rc=$?
  t1=$(date +%s)
  git -C /repo checkout -q -- .
  echo "$id: exit=$rc $(echo "$out" | grep -c VIOLATION) violation line(s) in $((t1-t0))s; first: $(echo "$out" | grep -m1 -E 'VIOLATION|OK|CHECKER' | cut -c1-150)"
done
