#!/usr/bin/env python3
"""Regenerate MANIFEST.json from props.py (claimed checks) + properties.jsonl (everything else -> not_applicable)."""
import json, os, sys
HERE = os.path.dirname(os.path.dirname(os.path.abspath(__file__)))
sys.path.insert(0, HERE)
import props
ids = [json.loads(l)["id"] for l in open(os.path.join(HERE, "properties.jsonl"))]
checks, na = [], []
for pid in ids:
    cfg = props.PROPS.get(pid)
    if cfg is None or cfg.get("not_applicable"):
        na.append({"property_id": pid, "reason": (cfg or {}).get("not_applicable", "no check built yet: the functions this property depends on are not under contract in this revision")})
        continue
    checks.append({
        "property_id": pid,
        "quick_cmd": "./check %s --tier quick" % pid,
        "thorough_cmd": "./check %s --tier thorough" % pid,
        "evidence_file": "evidence/%s.json" % pid,
        "replay_cmd_template": "./check %s --replay {path}" % pid,
        "engine": "pyvc",
        "level_claimed": {"category": "proof", "text": cfg["level_text"], "design_ref": cfg.get("design_ref", "DESIGN.md section 4, row " + pid)},
        "level_note": cfg["level_note"],
        "technique": cfg.get("technique", "contract-based deductive verification: VCs generated from the AST of the real functions, discharged by z3/cvc5"),
    })
m = {
    "version": 1,
    "setup_cmd": "./setup.sh",
    "hooks": {"guard": "SPOWTD_VERIF", "enable": "no hooks: contracts are sidecar files under /verif/contracts; /repo is read, never instrumented",
              "baseline_off_cmd": "cd /repo && /venv/bin/python -m pytest -ra -q -p no:cacheprovider --timeout=900 --continue-on-collection-errors",
              "source_commits": [], "add_only": True},
    "engines": [{"name": "pyvc", "path": "pyvc/", "serves_properties": [c["property_id"] for c in checks],
                 "kind_free_text": "own VC generator: symbolic execution of the AST of the real functions in /repo against sidecar contracts (requires/ensures/raises/modifies/loop invariants/ghost lemmas), one SMT obligation per safety condition, callee precondition, assertion, invariant and postcondition; z3 4/5 + cvc5; Lean 4 + Mathlib for spec-level mathematics; native replay of counterexamples on the real code"}],
    "checks": checks,
    "not_applicable": na,
    "notes": "See DESIGN.md. Exit codes: 0 held, 1 violation (VIOLATION line), 2 undecided, 3 checker error.",
}
json.dump(m, open(os.path.join(HERE, "MANIFEST.json"), "w"), indent=1)
print("checks:", [c["property_id"] for c in checks], "not_applicable:", len(na))
