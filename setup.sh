#!/bin/sh
# Build the overlay interpreter used by every check: /venv's Python 3.12 (the one the
# repository's tests run under, so numpy/scipy/pytz/yaml are the versions that run the real
# code) plus z3-solver and cvc5 from the offline wheelhouse.  Idempotent; ~10 s.
set -e
cd "$(dirname "$0")"
if [ -x .venv/bin/python ] && .venv/bin/python -c "import z3, numpy, scipy, yaml, pytz" 2>/dev/null; then
  exit 0
fi
rm -rf .venv
/venv/bin/python -m venv .venv
SP=$(.venv/bin/python -c "import sysconfig; print(sysconfig.get_paths()['purelib'])")
echo "import site; site.addsitedir('/venv/lib/python3.12/site-packages')" > "$SP/_overlay.pth"
PIP_NO_INDEX=1 .venv/bin/python -m pip install -q --no-index --find-links /opt/veriftools/wheels z3-solver cvc5 jsonschema >/dev/null
.venv/bin/python -c "import z3, cvc5, numpy, scipy, yaml, pytz, jsonschema; print('overlay venv ok', z3.get_version_string(), numpy.__version__)"
