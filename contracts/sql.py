"""Assumed contracts of the SQL statements issued by the workflow steps (keyed by the statement
text, which pyvc reads from the AST of /repo — a changed statement no longer matches and the
function degrades to its bounded stand-in).  What a SELECT returns is stated as facts about
`rows`; what a write does is recorded in a ghost table (rows inserted by the current step) and,
for C20, requires that the step has not committed yet.  Every contract here is validated against
the real SQLite on small databases by bounded/sqlcheck.py."""
from pyvc.spec import *   # noqa

TABLES = {
    "thresholds": "tuple[real,real]",
    "grid_time_flags": "tuple[int,int,int,int]",
    "zeta_interval": "tuple[int,int,int]",           # (start_epoch, is_storm_type, thru_epoch)
    "storm": "tuple[int,int]",
    "zeta_interval_storm": "tuple[int,int]",         # (interval_start_epoch, storm_start_epoch)
    "zeta_grid": "tuple[real]",
    "discrete_zeta": "tuple[int]",
    "curvature": "tuple[real]",
    "rising_interval": "tuple[int,real]",
    "rising_interval_zeta": "tuple[int,int,real]",
    "recession_interval": "tuple[int,real]",
    "recession_interval_zeta": "tuple[int,int,real]",
    "rainfall_intensity_staging": "tuple[int,int]",  # (epoch, value) as written by generate_timestamped_rows (values by identity)
    "evapotranspiration_staging": "tuple[int,int]",
    "water_level_staging": "tuple[int,int]",
    "grid_time_label": "tuple[int,int]",             # ghost table: the (data_interval, epoch) updates of grid_time
    "water_level": "tuple[int,real]",
}


# --------------------------------------------------------------------------- classify.py

@sql("""INSERT INTO thresholds (storm_rain_threshold_mm_h, rising_jump_threshold_mm_h)
        VALUES (:storm_rain_threshold_mm_h, :rising_jump_threshold_mm_h)""",
     kind="insert", table="thresholds", row=lambda p: (p.storm_rain_threshold_mm_h, p.rising_jump_threshold_mm_h))
def _ins_thresholds(p):
    pass


@sql("""SELECT DISTINCT data_interval FROM grid_time JOIN water_level USING (epoch)
        WHERE data_interval IS NOT NULL ORDER BY data_interval""", rows="tuple[int]")
def _q_data_intervals(p, rows):
    ensures(forall(0, len(rows), lambda j: forall(0, j, lambda i: rows[i][0] < rows[j][0])))


@sql("""SELECT water_level.epoch, zeta_mm, rainfall_intensity_mm_h > 0 AS is_raining
        FROM grid_time JOIN rainfall_intensity ON rainfall_intensity.from_epoch = grid_time.epoch
        AND grid_time.data_interval = ? JOIN water_level ON rainfall_intensity.from_epoch = water_level.epoch
        ORDER BY from_epoch""", rows="tuple[int,real,int]")
def _q_stretch_flags(p, rows):
    """Samples of one gap-free stretch in time order (epochs are a primary key: strictly increasing);
    at least one, because classify_intervals only passes labels that have a water-level sample."""
    ensures(len(rows) >= 1)
    ensures(forall(0, len(rows), lambda j: forall(0, j, lambda i: rows[i][0] < rows[j][0])))
    ensures(forall(0, len(rows), lambda i: rows[i][2] == 0 or rows[i][2] == 1))
    # Loaded(db): a stretch is a contiguous piece of the uniform time grid
    ensures(forall(0, len(rows) - 1, lambda i: rows[i + 1][0] - rows[i][0] == rows[1][0] - rows[0][0]))
    # every returned sample carries the requested label (label_of: grid_time.data_interval as a function of epoch)
    ensures(forall(0, len(rows), lambda i: uf_int("label_of", rows[i][0]) == p[0]))


@sql("""SELECT water_level.epoch, zeta_mm, rainfall_intensity_mm_h
        FROM grid_time JOIN rainfall_intensity ON rainfall_intensity.from_epoch = grid_time.epoch
        AND grid_time.data_interval = ? JOIN water_level ON rainfall_intensity.from_epoch = water_level.epoch
        ORDER BY from_epoch""", rows="tuple[int,real,real]")
def _q_stretch_rain(p, rows):
    ensures(len(rows) >= 1)
    ensures(forall(0, len(rows), lambda j: forall(0, j, lambda i: rows[i][0] < rows[j][0])))
    ensures(forall(0, len(rows) - 1, lambda i: rows[i + 1][0] - rows[i][0] == rows[1][0] - rows[0][0]))
    ensures(forall(0, len(rows), lambda i: uf_int("label_of", rows[i][0]) == p[0]))


@sql("""INSERT INTO grid_time_flags (start_epoch, is_jump, is_mystery_jump, is_interstorm) VALUES (?, ?, ?, ?)""",
     kind="insert", table="grid_time_flags", row=lambda p: (p[0], p[1], p[2], p[3]))
def _ins_flags(p):
    pass


@sql("""INSERT INTO zeta_interval (start_epoch, interval_type, thru_epoch)
        SELECT :start_epoch, :interval_type, :thru_epoch""",
     kind="insert", table="zeta_interval", row=lambda p: (p.start_epoch, 0, p.thru_epoch))
def _ins_interstorm(p):
    requires(p.interval_type == "interstorm")


@sql("""SELECT CAST(time_step_s AS double precision) / 3600. FROM time_grid""", rows="tuple[real]", one_row=True)
def _q_time_step_h(p, rows):
    """time_grid is a singleton written by load with a positive step."""
    ensures(rows[0][0] > 0)


@sql("""SELECT EXISTS ( SELECT 1 FROM storm WHERE start_epoch = :start_epoch AND thru_epoch = :thru_epoch )""",
     rows="tuple[int]", one_row=True)
def _q_storm_seen(p, rows):
    """1 exactly when this step has already inserted that storm (the table is empty before classify)."""
    ensures(rows[0][0] == (1 if exists(0, len(db_rows("storm")), lambda k:
            db_rows("storm")[k][0] == p.start_epoch and db_rows("storm")[k][1] == p.thru_epoch) else 0))


@sql("""INSERT INTO storm (start_epoch, thru_epoch) SELECT :start_epoch, :thru_epoch""",
     kind="insert", table="storm", row=lambda p: (p.start_epoch, p.thru_epoch))
def _ins_storm(p):
    pass


@sql("""INSERT INTO zeta_interval (start_epoch, interval_type, thru_epoch)
        VALUES (:start_epoch, :interval_type, :thru_epoch)""",
     kind="insert", table="zeta_interval", row=lambda p: (p.start_epoch, 1, p.thru_epoch))
def _ins_rise(p):
    requires(p.interval_type == "storm")


@sql("""INSERT INTO zeta_interval_storm (interval_start_epoch, interval_type, storm_start_epoch)
        VALUES (:interval_start_epoch, :interval_type, :storm_start_epoch)""",
     kind="insert", table="zeta_interval_storm", row=lambda p: (p.interval_start_epoch, p.storm_start_epoch))
def _ins_pair(p):
    requires(p.interval_type == "storm")


# --------------------------------------------------------------------------- zeta_grid.py, set_curvature.py

@sql("""INSERT INTO zeta_grid (grid_interval_mm) VALUES (?)""", kind="insert", table="zeta_grid", row=lambda p: (p[0],))
def _ins_zeta_grid(p):
    pass


@sql("""SELECT min(zeta_mm), max(zeta_mm) FROM water_level""", rows="tuple[real,real]", one_row=True)
def _q_zeta_bounds(p, rows):
    """An aggregate always returns one row; with water levels loaded, min <= max."""
    ensures(rows[0][0] <= rows[0][1])


@sql("""INSERT INTO discrete_zeta (zeta_number) VALUES (?)""", kind="insert", table="discrete_zeta", row=lambda p: (p[0],))
def _ins_discrete_zeta(p):
    pass


@sql("""INSERT INTO curvature (curvature_m_km2) VALUES (?)""", kind="insert", table="curvature", row=lambda p: (p[0],))
def _ins_curvature(p):
    pass


# --------------------------------------------------------------------------- rise.py / recession.py

@sql("""SELECT epoch, zeta_mm FROM water_level ORDER BY epoch""", rows="tuple[int,real]")
def _q_water_level(p, rows):
    """The gridded water levels in time order (epoch is the primary key)."""
    ensures(forall(0, len(rows), lambda j: forall(0, j, lambda i: rows[i][0] < rows[j][0])))


@sql("""SELECT s.start_epoch, s.thru_epoch, zi.start_epoch, zi.thru_epoch FROM storm AS s
        JOIN zeta_interval_storm AS zis ON s.start_epoch = zis.storm_start_epoch
        JOIN zeta_interval AS zi ON zi.start_epoch = zis.interval_start_epoch ORDER BY s.start_epoch""",
     rows="tuple[int,int,int,int]")
def _q_matched_rises(p, rows):
    """One row per recorded storm-rise pair: the storm and its rise (zeta_interval row referenced by the
    pairing table, whose interval_type is 'storm' by its CHECK constraint); storms are distinct."""
    ensures(forall(0, len(rows), lambda j: forall(0, j, lambda i: rows[i][0] < rows[j][0])))
    ensures(forall(0, len(rows), lambda i: uf_int("is_matched_rise", rows[i][2], rows[i][0]) == 1))


@sql("""SELECT total_depth_mm FROM storm_total_rain_depth WHERE storm_start_epoch = :storm_start_epoch""", rows="tuple[real]")
def _q_total_depth(p, rows):
    """The view's value for that storm (at most one row: storm_start_epoch is the storm's key)."""
    ensures(len(rows) <= 1)
    ensures(forall(0, len(rows), lambda i: rows[i][0] == uf_real("total_depth_of", p.storm_start_epoch)))
    # Classified(db): a storm is a run of steps with rainfall above the positive threshold (C03): its depth is positive
    ensures(forall(0, len(rows), lambda i: rows[i][0] > 0))


@sql("""SELECT (grid_interval_mm) FROM zeta_grid""", rows="tuple[real]")
def _q_grid_step(p, rows):
    """zeta_grid is a singleton (CHECK id = TRUE) with a positive step."""
    ensures(len(rows) <= 1)
    ensures(forall(0, len(rows), lambda i: rows[i][0] > 0))


@sql("""INSERT INTO rising_interval ( start_epoch, rain_depth_offset_mm) SELECT :start_epoch, :rain_depth_offset_mm""",
     kind="insert", table="rising_interval", row=lambda p: (p.start_epoch, p.rain_depth_offset_mm))
def _ins_rising_interval(p):
    pass


@sql("""INSERT INTO rising_interval_zeta ( start_epoch, zeta_number, mean_crossing_depth_mm)
        SELECT :start_epoch, :discrete_zeta, :mean_crossing_depth_mm""",
     kind="insert", table="rising_interval_zeta", row=lambda p: (p.start_epoch, p.discrete_zeta, p.mean_crossing_depth_mm))
def _ins_rising_interval_zeta(p):
    pass


@sql("""SELECT start_epoch, thru_epoch FROM zeta_interval WHERE interval_type = 'interstorm' ORDER BY start_epoch""",
     rows="tuple[int,int]")
def _q_interstorms(p, rows):
    ensures(forall(0, len(rows), lambda j: forall(0, j, lambda i: rows[i][0] < rows[j][0])))
    ensures(forall(0, len(rows), lambda i: rows[i][0] < rows[i][1] and uf_int("is_interstorm_start", rows[i][0]) == 1))


@sql("""SELECT EXISTS ( SELECT 1 FROM zeta_interval WHERE start_epoch = ? AND interval_type = 'interstorm' )""",
     rows="tuple[int]", one_row=True)
def _q_interstorm_exists(p, rows):
    ensures(rows[0][0] == (1 if uf_int("is_interstorm_start", p[0]) == 1 else 0))


@sql("""INSERT INTO recession_interval ( start_epoch, time_offset_s) SELECT :start_epoch, :time_offset_s""",
     kind="insert", table="recession_interval", row=lambda p: (p.start_epoch, p.time_offset_s))
def _ins_recession_interval(p):
    pass


@sql("""INSERT INTO recession_interval_zeta ( start_epoch, zeta_number, mean_crossing_time)
        SELECT :start_epoch, :discrete_zeta, :mean_crossing_time_s""",
     kind="insert", table="recession_interval_zeta", row=lambda p: (p.start_epoch, p.discrete_zeta, p.mean_crossing_time_s))
def _ins_recession_interval_zeta(p):
    pass


# --------------------------------------------------------------------------- load.py

@sql("""WITH a AS ( SELECT min(epoch) AS min_t_zeta, max(epoch) AS max_t_zeta FROM water_level_staging )
        SELECT epoch FROM rainfall_intensity_staging AS ris JOIN a ON ris.epoch >= min_t_zeta AND ris.epoch <= max_t_zeta
        ORDER BY epoch""", rows="tuple[int]")
def _q_grid_epochs(p, rows):
    """The staged rainfall instants within the span of the staged water levels, ascending (epoch is the
    primary key of the staging table)."""
    ensures(forall(0, len(rows), lambda j: forall(0, j, lambda i: rows[i][0] < rows[j][0])))
    # ... within the span of the staged water levels (min_staged_wl / max_staged_wl / n_staged_wl: the same
    # uninterpreted facts about water_level_staging that the contract of its SELECT in populate_water_level uses);
    # two different instants within the span mean at least two staged water levels
    ensures(forall(0, len(rows), lambda i: uf_int("min_staged_wl") <= rows[i][0] and rows[i][0] <= uf_int("max_staged_wl")))
    ensures(implies(len(rows) >= 2, uf_int("n_staged_wl") >= 2))


@sql("""INSERT INTO time_grid (source_time_zone, time_step_s) VALUES (?, ?)""", kind="insert")
def _ins_time_grid(p):
    pass


@sql("""INSERT INTO grid_time (epoch) VALUES (?)""", kind="insert")
def _ins_grid_time(p):
    pass


@sql("""SELECT epoch FROM grid_time AS gt WHERE NOT EXISTS ( SELECT 1 FROM evapotranspiration_staging AS es
        WHERE es.epoch = gt.epoch ) ORDER BY epoch""", rows="tuple[int]")
def _q_missing_et(p, rows):
    """The grid instants without a staged ET value."""
    ensures(forall(0, len(rows), lambda i: uf_int("has_staged_et", rows[i][0]) == 0))
    ensures(forall_int(lambda e: implies(uf_int("on_grid", e) == 1 and uf_int("has_staged_et", e) == 0,
                                         exists(0, len(rows), lambda i: rows[i][0] == e))))


@sql("""INSERT INTO evapotranspiration (from_epoch, thru_epoch, evapotranspiration_mm_h)
        SELECT es.epoch, es.epoch + ?, evapotranspiration_mm_h FROM evapotranspiration_staging AS es
        JOIN grid_time AS gt USING (epoch) WHERE es.epoch <= ?""", kind="insert")
def _ins_et(p):
    pass


@sql("""INSERT INTO rainfall_intensity (from_epoch, thru_epoch, rainfall_intensity_mm_h)
        SELECT ris.epoch, ris.epoch + ?, rainfall_intensity_mm_h FROM rainfall_intensity_staging AS ris
        JOIN grid_time AS gt USING (epoch) WHERE ris.epoch <= ?""", kind="insert")
def _ins_rain(p):
    pass


@sql("""SELECT epoch, zeta_mm FROM water_level_staging""", rows="tuple[int,real]")
def _q_staged_wl(p, rows):
    """The staged water levels in rowid order = epoch order (epoch is the INTEGER PRIMARY KEY of the staging
    table, hence its rowid; a scan without ORDER BY visits rows in rowid order)."""
    ensures(len(rows) == uf_int("n_staged_wl"))
    ensures(forall(0, len(rows), lambda j: forall(0, j, lambda i: rows[i][0] < rows[j][0])))
    ensures(implies(len(rows) >= 1, rows[0][0] == uf_int("min_staged_wl") and rows[len(rows) - 1][0] == uf_int("max_staged_wl")))


@sql("""UPDATE grid_time SET data_interval = ? WHERE epoch = ?""", kind="insert", table="grid_time_label", row=lambda p: (p[0], p[1]))
def _upd_grid_time_label(p):
    pass


@sql("""INSERT INTO water_level (epoch, zeta_mm) VALUES (?, ?)""", kind="insert", table="water_level", row=lambda p: (p[0], p[1]))
def _ins_water_level(p):
    pass


# --------------------------------------------------------------------------- load_data

@sql("""PRAGMA foreign_keys = 1""", rows="tuple[int]")
def _pragma_fk(p, rows):
    """Switches foreign-key enforcement on for the connection; returns nothing of interest."""
    pass


@sql("""SELECT name FROM sqlite_master WHERE type='table'""", rows="tuple[int]")
def _q_tables(p, rows):
    """One row per existing table (names modelled by integer identities)."""
    pass


@sql("""INSERT INTO rainfall_intensity_staging (epoch, rainfall_intensity_mm_h) VALUES (?, ?)""", kind="insert",
     table="rainfall_intensity_staging", row=lambda p: (p[0], p[1]))
def _ins_rain_staging(p):
    pass


@sql("""INSERT INTO evapotranspiration_staging (epoch, evapotranspiration_mm_h) VALUES (?, ?)""", kind="insert",
     table="evapotranspiration_staging", row=lambda p: (p[0], p[1]))
def _ins_et_staging(p):
    pass


@sql("""INSERT INTO water_level_staging (epoch, zeta_mm) VALUES (?, ?)""", kind="insert",
     table="water_level_staging", row=lambda p: (p[0], p[1]))
def _ins_wl_staging(p):
    pass


# --------------------------------------------------------------------------- simulate_rise

@sql("""SELECT mean_crossing_depth_mm AS dynamic_storage_mm, zeta_mm FROM average_rising_depth ORDER BY zeta_mm""",
     rows="tuple[real,real]")
def _q_rise_curve(p, rows):
    """The measured rise master curve (storage, level), ascending in level (one row per grid level)."""
    ensures(forall(0, len(rows), lambda j: forall(0, j, lambda i: rows[i][1] < rows[j][1])))


# --------------------------------------------------------------------------- simulate_recession

@sql("""SELECT EXISTS (SELECT 1 FROM curvature WHERE is_valid)""", rows="tuple[int]", one_row=True)
def _q_curvature_set(p, rows):
    ensures(rows[0][0] == 0 or rows[0][0] == 1)


@sql("""SELECT curvature_m_km2 FROM curvature""", rows="tuple[real]")
def _q_curvature(p, rows):
    """curvature is a singleton (is_valid is its primary key and is 1)."""
    ensures(len(rows) <= 1)
    ensures(forall(0, len(rows), lambda i: rows[i][0] == uf_real("site_curvature_m_km2")))


@sql("""SELECT CAST(elapsed_time_s AS double precision) / (3600 * 24) AS elapsed_time_d, zeta_mm / 10 AS zeta_cm
        FROM average_recession_time ORDER BY zeta_mm""", rows="tuple[real,real]")
def _q_recession_curve(p, rows):
    """The measured recession master curve (elapsed time in days, level in cm), ascending in level."""
    ensures(forall(0, len(rows), lambda j: forall(0, j, lambda i: rows[i][1] < rows[j][1])))


@sql("""SELECT avg(evapotranspiration_mm_h) * 24 AS evapotranspiration_mm_d FROM recession_interval AS ri
        JOIN zeta_interval AS zi ON zi.start_epoch = ri.start_epoch AND zi.interval_type = ri.interval_type
        JOIN evapotranspiration AS e ON e.from_epoch >= zi.start_epoch AND e.from_epoch < zi.thru_epoch""",
     rows="tuple[real]", one_row=True)
def _q_mean_recession_et(p, rows):
    """Mean evapotranspiration over the steps of the recession intervals, in mm/d (an aggregate: exactly one row;
    NULL -- no recession interval at all -- is not modelled)."""
    ensures(rows[0][0] == uf_real("mean_recession_et_mm_d"))
