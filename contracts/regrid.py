"""Sidecar contracts for spowtd/regrid.py and the crossing bookkeeping of fit_offsets (C12)."""
from pyvc.spec import *   # noqa


@spec
def seg_off(offs, i):
    """Number of crossings reported before segment i."""
    return 0 if i == 0 else offs[i - 1]


@spec
def lvl(y, y_step, i):
    """ceil(y[i] / y_step): the first grid level at or above sample i."""
    return ceil_int(y[i] / y_step)


@spec
def target_of(y, y_step, i, j):
    """j-th level reported for the pair (i, i+1): ascending from the lower sample's level
    (lower value included, upper excluded), descending for a falling pair."""
    return (lvl(y, y_step, i) + j) if lvl(y, y_step, i + 1) > lvl(y, y_step, i) else (lvl(y, y_step, i) - 1 - j)


@spec
def is_crossing(x, y, y_step, i, k, xt):
    """xt lies between samples i and i+1 and the straight line through them equals k*y_step there."""
    return (x[i] <= xt and xt <= x[i + 1]
            and close(y[i] / y_step + (xt - x[i]) * (y[i + 1] / y_step - y[i] / y_step) / (x[i + 1] - x[i]), k))


@contract("spowtd.regrid:regrid",
          args={"x": "array[real]", "y": "array[real]", "y_step": "real", "interpolant": "const:linear"},
          returns="list[tuple[int,real]]", ghost_results={"g_offs": "array[int]"})
def _regrid(x, y, y_step, interpolant, result):
    """C12: for every pair of consecutive samples, every multiple of the step between them
    (lower value included, upper excluded) is reported exactly once, at the point where the
    straight line through the two samples takes that value; nothing else is reported."""
    requires(y_step > 0)
    requires(forall(0, len(x) - 1, lambda i: x[i] < x[i + 1]))
    requires(len(x) != 1 or len(y) != 1)
    raises(ValueError, when=len(x) != len(y))
    ghost(after="y_int = ", let="g_offs", do=lambda: prefix_sums(
        [abs(y_int[i + 1] - y_int[i]) for i in range(len(y_int) - 1)]))
    ensures(len(g_offs) == (len(x) - 1 if len(x) >= 1 else 0))
    ensures(forall(0, len(g_offs), lambda i: g_offs[i] == seg_off(g_offs, i) + abs(lvl(y, y_step, i + 1) - lvl(y, y_step, i))))
    ensures(len(result) == (0 if len(x) <= 1 else g_offs[len(x) - 2]))
    ensures(forall(0, len(x) - 1, lambda i: forall(0, abs(lvl(y, y_step, i + 1) - lvl(y, y_step, i)), lambda j:
            result[seg_off(g_offs, i) + j][0] == target_of(y, y_step, i, j)
            and is_crossing(x, y, y_step, i, target_of(y, y_step, i, j), result[seg_off(g_offs, i) + j][1]))))
    loop(0, types={"__yielded__": "list[tuple[int,real]]"}, inv=lambda it: len(__yielded__) == seg_off(g_offs, it)
         and forall(0, it, lambda i: forall(0, abs(lvl(y, y_step, i + 1) - lvl(y, y_step, i)), lambda j:
             __yielded__[seg_off(g_offs, i) + j][0] == target_of(y, y_step, i, j)
             and is_crossing(x, y, y_step, i, target_of(y, y_step, i, j), __yielded__[seg_off(g_offs, i) + j][1]))))
    loop(1, inv=lambda it: len(__yielded__) == seg_off(g_offs, i) + it
         and forall(0, i, lambda i2: forall(0, abs(lvl(y, y_step, i2 + 1) - lvl(y, y_step, i2)), lambda j:
             __yielded__[seg_off(g_offs, i2) + j][0] == target_of(y, y_step, i2, j)
             and is_crossing(x, y, y_step, i2, target_of(y, y_step, i2, j), __yielded__[seg_off(g_offs, i2) + j][1])))
         and forall(0, it, lambda j:
             __yielded__[seg_off(g_offs, i) + j][0] == target_of(y, y_step, i, j)
             and is_crossing(x, y, y_step, i, target_of(y, y_step, i, j), __yielded__[seg_off(g_offs, i) + j][1])))


@native_ghosts("spowtd.regrid:regrid")
def _regrid_ghosts(x, y, y_step, interpolant="linear", result=None):
    import math
    import numpy as np
    c = [math.ceil(v / y_step) for v in y]
    return {"g_offs": np.cumsum([abs(c[i + 1] - c[i]) for i in range(len(c) - 1)]).astype(int) if len(c) > 1 else np.array([], dtype=int)}


@examples("spowtd.regrid:regrid")
def _ex_regrid(tier, rng):
    """All series of <= 4 (quick) / 5 samples with values on a quarter-step lattice in [-1, 1.5]
    (exactly on / between grid levels, flat, rising, falling, non-monotone), steps 1.0 and 0.5."""
    import itertools
    import numpy as np
    vals = [-1.0, -0.75, -0.25, 0.0, 0.25, 1.0, 1.5]
    for n in range(0, 5 if tier == "quick" else 6):
        for ys in itertools.product(vals, repeat=n):
            for step in (1.0, 0.5):
                yield {"x": np.arange(n, dtype=float) * 10.0 + 3.0, "y": np.array(ys, dtype=float), "y_step": step,
                       "interpolant": "linear"}
    yield {"x": np.array([0.0, 1.0]), "y": np.array([0.0]), "y_step": 1.0, "interpolant": "linear"}
