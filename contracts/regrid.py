"""Sidecar contracts for spowtd/regrid.py and the crossing bookkeeping of fit_offsets (C12)."""
from pyvc.spec import *   # noqa


@spec
def seg_off(offs, i):
    """Number of crossings reported before segment i."""
    return 0 if i == 0 else offs[i - 1]


@spec
def lvl(y, y_step, i):
    """ceil(y[i] / y_step): the first grid level at or above sample i."""
    return ceil_int(y[i] / y_step)


@spec
def target_of(y, y_step, i, j):
    """j-th level reported for the pair (i, i+1): ascending from the lower sample's level
    (lower value included, upper excluded), descending for a falling pair."""
    return (lvl(y, y_step, i) + j) if lvl(y, y_step, i + 1) > lvl(y, y_step, i) else (lvl(y, y_step, i) - 1 - j)


@spec
def is_crossing(x, y, y_step, i, k, xt):
    """xt lies between samples i and i+1 and the straight line through them equals k*y_step there."""
    return (x[i] <= xt and xt <= x[i + 1]
            and close(y[i] / y_step + (xt - x[i]) * (y[i + 1] / y_step - y[i] / y_step) / (x[i + 1] - x[i]), k))


@spec
def cnt(y, y_step, i):
    return abs(lvl(y, y_step, i + 1) - lvl(y, y_step, i))


@spec
def reported(x, y, y_step, offs, seg, ord_, out, p):
    """Output position p is the ord_[p]-th level of the pair (seg[p], seg[p]+1), at its place in
    the enumeration (pairs in order, levels in order), and is a true crossing."""
    return (0 <= seg[p] and seg[p] < len(x) - 1
            and 0 <= ord_[p] and ord_[p] < cnt(y, y_step, seg[p])
            and p == seg_off(offs, seg[p]) + ord_[p]
            and out[p][0] == target_of(y, y_step, seg[p], ord_[p])
            and is_crossing(x, y, y_step, seg[p], out[p][0], out[p][1]))


@contract("spowtd.regrid:regrid",
          args={"x": "array[real]", "y": "array[real]", "y_step": "real", "interpolant": "const:linear"},
          returns="list[tuple[int,real]]",
          ghost_results={"g_offs": "array[int]", "g_seg": "list[int]", "g_ord": "list[int]"})
def _regrid(x, y, y_step, interpolant, result):
    """C12: for every pair of consecutive samples, every multiple of the step between them
    (lower value included, upper excluded) is reported exactly once, at the point where the
    straight line through the two samples takes that value; nothing else is reported.

    Stated with ghost results: g_offs (crossings reported up to and including each pair) and,
    per output position, the pair g_seg[p] and the ordinal g_ord[p] of the level within the pair.
    `reported` for every p, together with len(result) = total count, says that the output is the
    enumeration (pairs in order, levels in order): position p <-> (pair, ordinal) is a bijection."""
    requires(y_step > 0)
    requires(forall(0, len(x), lambda j: forall(0, j, lambda i: x[i] < x[j])))
    requires(len(x) != 1 or len(y) != 1)
    raises(ValueError, when=len(x) != len(y))
    ghost(after="y_int = ", let="g_counts", do=lambda: [abs(y_int[i + 1] - y_int[i]) for i in range(len(y_int) - 1)])
    ghost(after="y_int = ", let="g_offs", do=lambda: prefix_sums(g_counts))
    ghost(after="y_int = ", do=lambda: prefix_sums_monotone(g_counts, g_offs))
    ghost(after="y_int = ", let="g_seg", do=lambda: [])
    ghost(after="y_int = ", let="g_ord", do=lambda: [])
    ghost(before="yield (y_target, x_target)", let="g_ord", do=lambda: g_ord + [len(__yielded__) - seg_off(g_offs, i)])
    ghost(before="yield (y_target, x_target)", let="g_seg", do=lambda: g_seg + [i])
    ensures(len(g_offs) == (len(x) - 1 if len(x) >= 1 else 0))
    ensures(forall(0, len(g_offs), lambda i: g_offs[i] == seg_off(g_offs, i) + cnt(y, y_step, i)))
    ensures(len(result) == (0 if len(x) <= 1 else g_offs[len(x) - 2]))
    ensures(len(g_seg) == len(result) and len(g_ord) == len(result))
    ensures(forall(0, len(result), lambda p: reported(x, y, y_step, g_offs, g_seg, g_ord, result, p)))
    loop(0, types={"__yielded__": "list[tuple[int,real]]", "g_seg": "list[int]", "g_ord": "list[int]"},
         inv=lambda it: len(__yielded__) == seg_off(g_offs, it)
         and len(g_seg) == len(__yielded__) and len(g_ord) == len(__yielded__)
         and forall(0, len(__yielded__), lambda p: reported(x, y, y_step, g_offs, g_seg, g_ord, __yielded__, p)))
    loop(1, inv=lambda it: len(__yielded__) == seg_off(g_offs, i) + it
         and len(g_seg) == len(__yielded__) and len(g_ord) == len(__yielded__)
         and forall(0, len(__yielded__), lambda p: reported(x, y, y_step, g_offs, g_seg, g_ord, __yielded__, p)))


@native_ghosts("spowtd.regrid:regrid")
def _regrid_ghosts(x, y, y_step, interpolant="linear", result=None):
    import math
    import numpy as np
    c = [math.ceil(v / y_step) for v in y]
    seg, ord_ = [], []
    for i in range(len(c) - 1):
        for j in range(abs(c[i + 1] - c[i])):
            seg.append(i)
            ord_.append(j)
    return {"g_offs": np.cumsum([abs(c[i + 1] - c[i]) for i in range(len(c) - 1)]).astype(int) if len(c) > 1 else np.array([], dtype=int),
            "g_seg": seg, "g_ord": ord_}


@examples("spowtd.regrid:regrid")
def _ex_regrid(tier, rng):
    """All series of <= 4 (quick) / 5 samples with values on a quarter-step lattice in [-1, 1.5]
    (exactly on / between grid levels, flat, rising, falling, non-monotone), steps 1.0 and 0.5."""
    import itertools
    import numpy as np
    vals = [-1.0, -0.75, -0.25, 0.0, 0.25, 1.0, 1.5]
    for n in range(0, 5 if tier == "quick" else 6):
        for ys in itertools.product(vals, repeat=n):
            for step in (1.0, 0.5):
                yield {"x": np.arange(n, dtype=float) * 10.0 + 3.0, "y": np.array(ys, dtype=float), "y_step": step,
                       "interpolant": "linear"}
    yield {"x": np.array([0.0, 1.0]), "y": np.array([0.0]), "y_step": 1.0, "interpolant": "linear"}
