"""Sidecar contracts for the PEATCLSM specific yield (C16): the Python functions against spec
functions transcribed from equations 1, 4, 5 of Dettmann & Bechtold (2015) as written in the
reference R script shipped with the code (spowtd/test/peatclsm_hydraulic_functions.R)."""
from pyvc.spec import *   # noqa


@spec
def campbell_spec(Fs, z_, zlu, theta_s, psi_s, b, sd):
    """(1 - Fs) * theta, theta = theta_s at or above the air-entry pressure head, the Campbell
    retention curve below it (R: campbell_1d_az)."""
    return (1 - Fs) * (theta_s if ((zlu - z_) * 100) >= (psi_s * 100)
                       else theta_s * uf_real("pow", ((zlu - z_) * 100) / (psi_s * 100), -1 / b))


@contract("spowtd.specific_yield:campbell_1d_az",
          args={"Fs": "real", "z_": "real", "zlu": "real", "theta_s": "real", "psi_s": "real", "b": "real", "sd": "real"},
          returns="real")
def _campbell(Fs, z_, zlu, theta_s, psi_s, b, sd, result):
    requires(b != 0 and psi_s != 0)
    ensures(result == campbell_spec(Fs, z_, zlu, theta_s, psi_s, b, sd))


PS_FIELDS = {"sd": "real", "theta_s": "real", "b": "real", "psi_s": "real"}


@spec
def soil_term(s, zl_, zu_, i, j):
    """dz_j (A(zu_i) - A(zl_i)) at cell j: the j-th summand of equation 1."""
    return ((zu_[j] - zl_[j])
            * (campbell_spec(uf_real("normcdf", 0.5 * (zl_[j] + zu_[j]), s.sd), 0.5 * (zl_[j] + zu_[j]), zu_[i],
                             s.theta_s, s.psi_s, s.b, s.sd)
               - campbell_spec(uf_real("normcdf", 0.5 * (zl_[j] + zu_[j]), s.sd), 0.5 * (zl_[j] + zu_[j]), zl_[i],
                               s.theta_s, s.psi_s, s.b, s.sd)))


@contract("spowtd.specific_yield:PeatclsmSpecificYield.get_Sy_soil", self_fields=PS_FIELDS,
          args={"Sy_soil": "array[real]", "zl_": "array[real]", "zu_": "array[real]"}, returns="none",
          ghost_results={"g_P": "fn2"})
def _get_sy_soil(self, Sy_soil, zl_, zu_, result):
    """C16: Sy_soil[i] = (1 / dz_i) * sum over all cells j of dz_j (A_j(zu_i) - A_j(zl_i)).
    g_P(i, j) is the partial sum up to cell j (its defining recurrence is part of the postcondition)."""
    requires(len(zl_) == len(zu_) and len(Sy_soil) == len(zl_) and len(zl_) >= 1)
    requires(forall(0, len(zl_), lambda k: zu_[k] - zl_[k] != 0))
    requires(self.b != 0 and self.psi_s != 0)
    modifies("Sy_soil")
    ghost(after="dz = zu_ - zl_", let="g_P", do=lambda: prefix_sums_2d(
        lambda i, j: soil_term(self, zl_, zu_, i, j), len(zl_), len(Sy_soil)))
    ensures(len(Sy_soil) == len(old(Sy_soil)))
    ensures(forall(0, len(zl_), lambda i: g_P(i, 0) == soil_term(self, zl_, zu_, i, 0)))
    ensures(forall(0, len(zl_), lambda i: forall(1, len(zl_), lambda j:
            g_P(i, j) == g_P(i, j - 1) + soil_term(self, zl_, zu_, i, j))))
    ensures(forall(0, len(zl_), lambda i: Sy_soil[i] == 1 / (1 * (zu_[i] - zl_[i])) * g_P(i, len(zl_) - 1)))
    loop(0, inv=lambda it: len(Sy_soil) == len(zl_) and forall(0, it, lambda i2:
         Sy_soil[i2] == 1 / (1 * (zu_[i2] - zl_[i2])) * g_P(i2, len(zl_) - 1)))
    loop(1, inv=lambda it: A == (0 if it == 0 else g_P(i, it - 1)))


@contract("spowtd.specific_yield:PeatclsmSpecificYield._construct_spline",
          self_fields={"sd": "real", "theta_s": "real", "b": "real", "psi_s": "real", "zeta_knots_mm": "none", "sy_knots": "none"},
          args={}, returns="obj[spowtd.spline:Spline]", ghost_results={"g_P": "fn2"})
def _construct_spline(self, result):
    """C16: 201 tabulated levels at the cell mid-points -995 mm, -985 mm, ..., 1005 mm; at each
    the soil profile of get_Sy_soil plus the microtopography term normcdf(level in m, sd); the
    returned spline passes through the table and is constant beyond it."""
    requires(self.b != 0 and self.psi_s != 0)
    ghost(before="assert np.allclose(", do=lambda: cut(forall(0, 201, lambda i:
          self.zeta_knots_mm[0] <= self.zeta_knots_mm[i] and self.zeta_knots_mm[i] <= self.zeta_knots_mm[200])))
    ghost(before="assert np.allclose(", do=lambda: cut(len(self.sy_knots) == 201 and len(self.zeta_knots_mm) == 201
          and lo_knot(spline) == self.zeta_knots_mm[0] and hi_knot(spline) == self.zeta_knots_mm[200]))
    ghost(before="assert np.allclose(", do=lambda: cut(forall(0, 201, lambda i:
          S_of(spline, clamp(spline, self.zeta_knots_mm[i])) == self.sy_knots[i])))
    ensures(len(self.zeta_knots_mm) == 201 and len(self.sy_knots) == 201)
    ensures(forall(0, 201, lambda i: self.zeta_knots_mm[i] == 1000 * (0.5 * ((-0.99 + i * 0.01) + (-1 + i * 0.01)))))
    ensures(forall(0, 201, lambda i: self.sy_knots[i]
                   == 1 / (1 * ((-0.99 + i * 0.01) - (-1 + i * 0.01))) * g_P(i, 200)
                   + uf_real("normcdf", 0.5 * ((-0.99 + i * 0.01) + (-1 + i * 0.01)), self.sd)))
    ensures(lo_knot(result) == self.zeta_knots_mm[0] and hi_knot(result) == self.zeta_knots_mm[200])
    ensures(forall(0, 201, lambda i: S_of(result, self.zeta_knots_mm[i]) == self.sy_knots[i]))
