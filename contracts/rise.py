"""Sidecar contracts for spowtd/rise.py and spowtd/recession.py (C09, C13, C20).

Partial-correctness contracts: the steps contain defensive checks of database consistency
(asserts, lookups of epochs) whose failure aborts the step — tolerated here (may_raise) and made
harmless by C20 (the enclosing transaction rolls back).  What is proved: if the step returns, the
rows it inserted are exactly those the property describes, and it never writes after a commit."""
from pyvc.spec import *   # noqa

RISE_GHOSTS = {"g_epoch": "array[real]", "g_zeta": "array[real]", "g_rows": "list[tuple[int,int,int,int]]",
               "g_zi": "list[tuple[int,int]]", "g_indices": "list[int]", "g_offsets": "array[real]",
               "g_mapping": "dict[int,list[tuple[int,real]]]", "g_ref": "int", "g_mean0": "real", "g_step": "real",
               "g_lv": "list[int]", "g_q": "list[int]"}


@spec
def rise_series_ok(series, zi, rows, epoch, zeta, i):
    """The i-th series is the straight segment from zero depth at the rise's initial level to its
    storm's total rain depth at its final level; zi[i] are the sample indices of that rise."""
    return (0 <= zi[i][0] and zi[i][0] < zi[i][1] - 1 and zi[i][1] <= len(epoch)
            and epoch[zi[i][0]] == rows[i][2] and epoch[zi[i][1] - 1] == rows[i][3]
            and len(series[i][0]) == 2 and len(series[i][1]) == 2
            and series[i][0][0] == 0 and series[i][0][1] == uf_real("total_depth_of", rows[i][0]) and series[i][0][1] > 0
            and series[i][1][0] == zeta[zi[i][0]] and series[i][1][1] == zeta[zi[i][1] - 1])


@contract("spowtd.rise:compute_rise_offsets#reference", db=True,
          args={"cursor": "cursor", "reference_zeta_mm": "real"}, returns="none", ghost_results=RISE_GHOSTS, nonlinear="nra")
@contract("spowtd.rise:compute_rise_offsets", db=True,
          args={"cursor": "cursor", "reference_zeta_mm": "none"}, returns="none", ghost_results=RISE_GHOSTS)
def _compute_rise_offsets(cursor, reference_zeta_mm):
    """C13 (rise curve): every row of rising_interval is the start epoch of a matched rise (a row of
    the storm / pairing / interval join) chosen by the fit, with the fitted offset minus the mean
    crossing of the reference level; every row of rising_interval_zeta is (that rise's start epoch,
    level, crossing) for an entry of the fit's level mapping; the series handed to the fit are the
    segments (0, total depth of its storm) -> (initial, final level of the rise).
    C09: without a reference the origin is the highest level of the curve.  C20: no write after a commit."""
    requires(not db_sealed())
    modifies("__db__")
    may_raise(ValueError)
    may_raise(AssertionError)
    may_raise(IndexError)
    may_raise(KeyError)
    may_raise(TypeError)
    may_raise(LinAlgError)
    ghost(after="epoch, zeta_mm = ", let="g_epoch", do=lambda: epoch)
    ghost(after="epoch, zeta_mm = ", let="g_zeta", do=lambda: zeta_mm)
    ghost(after="series = []", let="g_rows", do=lambda: cursor.fetchall())
    ghost(after="indices, offsets, zeta_mapping = get_series_time_offsets(", let="g_zi", do=lambda: zeta_intervals)
    ghost(after="indices, offsets, zeta_mapping = get_series_time_offsets(", let="g_indices", do=lambda: indices)
    ghost(after="indices, offsets, zeta_mapping = get_series_time_offsets(", let="g_offsets", do=lambda: offsets)
    ghost(after="indices, offsets, zeta_mapping = get_series_time_offsets(", let="g_mapping", do=lambda: zeta_mapping)
    ghost(after="indices, offsets, zeta_mapping = get_series_time_offsets(", let="g_step", do=lambda: delta_z_mm)
    ghost(after="mean_zero_crossing_depth_mm = ", let="g_ref", do=lambda: reference_index)
    ghost(after="mean_zero_crossing_depth_mm = ", let="g_mean0", do=lambda: mean_zero_crossing_depth_mm)
    ghost(after="mean_zero_crossing_depth_mm = ", let="g_lv", do=lambda: [])
    ghost(after="mean_zero_crossing_depth_mm = ", let="g_q", do=lambda: [])
    ghost(before="cursor.execute('\\n            INSERT INTO rising_interval_zeta", let="g_lv", do=lambda: g_lv + [discrete_zeta])
    ghost(before="cursor.execute('\\n            INSERT INTO rising_interval_zeta", let="g_q", do=lambda: g_q + [loop_it(3)])
    ensures(not db_sealed())
    # the series are the matched rises of the join, in order
    ensures(len(g_zi) == len(g_rows))
    ensures(forall(0, len(g_rows), lambda i: uf_int("is_matched_rise", g_rows[i][2], g_rows[i][0]) == 1))
    ensures(forall(0, len(g_zi), lambda i: 0 <= g_zi[i][0] and g_zi[i][0] < len(g_epoch) and g_epoch[g_zi[i][0]] == g_rows[i][2]))
    # C09: without a reference the origin is the highest level of the curve; with one it is that level
    # (floats as reals here; the floating-point side of "every multiple is accepted" is decided by the
    # standard-model obligations and the native sweep of the C09 check)
    ensures(g_ref in g_mapping)
    ensures(implies(reference_zeta_mm is None, forall_int(lambda h: implies(h in g_mapping, h <= g_ref))))
    ensures(implies(reference_zeta_mm is not None, on_grid(reference_zeta_mm, g_step, g_ref)))
    # the refusal is only reached for references that are not a multiple of the step
    ghost(before="raise ValueError('Reference zeta", do=lambda: cut(not is_integer(reference_zeta_mm / delta_z_mm)))
    # rising_interval rows
    ensures(len(db_rows("rising_interval")) == len(db_rows_before("rising_interval")) + len(g_indices))
    ensures(forall(len(db_rows_before("rising_interval")), len(db_rows("rising_interval")), lambda K:
            db_rows("rising_interval")[K]
            == (g_epoch[g_zi[g_indices[K - len(db_rows_before("rising_interval"))]][0]],
                g_offsets[K - len(db_rows_before("rising_interval"))] - g_mean0)))
    # rising_interval_zeta rows
    ensures(len(db_rows("rising_interval_zeta")) == len(db_rows_before("rising_interval_zeta")) + len(g_lv)
            and len(g_q) == len(g_lv))
    ensures(forall(len(db_rows_before("rising_interval_zeta")), len(db_rows("rising_interval_zeta")), lambda K:
            riz_row(db_rows("rising_interval_zeta")[K], g_epoch, g_zi, g_mapping,
                    g_lv[K - len(db_rows_before("rising_interval_zeta"))], g_q[K - len(db_rows_before("rising_interval_zeta"))])))
    loop(0, types={"series": "list[tuple[array[real],array[real]]]", "rain_intervals": "list[tuple[int,int]]",
                   "zeta_intervals": "list[tuple[int,int]]"},
         inv=lambda it: not db_sealed() and len(series) == it and len(zeta_intervals) == it
         and db_rows("rising_interval") == db_rows_before("rising_interval")
         and db_rows("rising_interval_zeta") == db_rows_before("rising_interval_zeta")
         and forall(0, it, lambda i: rise_series_ok(series, zeta_intervals, g_rows, epoch, zeta_mm, i)))
    loop(1, inv=lambda it: not db_sealed()
         and db_rows("rising_interval_zeta") == db_rows_before("rising_interval_zeta")
         and len(db_rows("rising_interval")) == len(db_rows_before("rising_interval")) + it
         and forall(len(db_rows_before("rising_interval")), len(db_rows("rising_interval")), lambda K:
            db_rows("rising_interval")[K]
            == (epoch[zeta_intervals[indices[K - len(db_rows_before("rising_interval"))]][0]],
                offsets[K - len(db_rows_before("rising_interval"))] - mean_zero_crossing_depth_mm)))
    loop(2, types={"g_lv": "list[int]", "g_q": "list[int]"}, inv=lambda it: not db_sealed()
         and db_rows("rising_interval") == g_ri_done
         and len(db_rows("rising_interval_zeta")) == len(db_rows_before("rising_interval_zeta")) + len(g_lv) and len(g_q) == len(g_lv)
         and forall(len(db_rows_before("rising_interval_zeta")), len(db_rows("rising_interval_zeta")), lambda K:
            riz_row(db_rows("rising_interval_zeta")[K], epoch, zeta_intervals, zeta_mapping,
                    g_lv[K - len(db_rows_before("rising_interval_zeta"))], g_q[K - len(db_rows_before("rising_interval_zeta"))])))
    loop(3, inv=lambda it: not db_sealed()
         and db_rows("rising_interval") == g_ri_done
         and len(db_rows("rising_interval_zeta")) == len(db_rows_before("rising_interval_zeta")) + len(g_lv) and len(g_q) == len(g_lv)
         and forall(len(db_rows_before("rising_interval_zeta")), len(db_rows("rising_interval_zeta")), lambda K:
            riz_row(db_rows("rising_interval_zeta")[K], epoch, zeta_intervals, zeta_mapping,
                    g_lv[K - len(db_rows_before("rising_interval_zeta"))], g_q[K - len(db_rows_before("rising_interval_zeta"))])))
    ghost(before="for discrete_zeta, crossings in zeta_mapping.items()", let="g_ri_done", do=lambda: db_rows("rising_interval"))


@spec
def on_grid(ref, step, k):
    """The accepted reference is (within the tolerance of the test) the k-th multiple of the step."""
    return abs(ref - k * step) <= 1 / 1000000 * step


@spec
def riz_row(row, epoch, zi, mapping, h, q):
    """row = (start epoch of the rise named by the q-th entry of level h, h, that entry's crossing)."""
    return (h in mapping and 0 <= q and q < len(mapping[h])
            and row == (epoch[zi[mapping[h][q][0]][0]], h, mapping[h][q][1]))


@contract("spowtd.rise:find_rise_offsets#reference", db=True,
          args={"connection": "connection", "reference_zeta_mm": "real"}, returns="none")
@contract("spowtd.rise:find_rise_offsets", db=True,
          args={"connection": "connection", "reference_zeta_mm": "none"}, returns="none")
def _find_rise_offsets(connection, reference_zeta_mm):
    """C20: the step commits exactly once, as its last database action, and never writes afterwards."""
    requires(not db_sealed())
    modifies("__db__")
    may_raise(ValueError)
    may_raise(AssertionError)
    may_raise(IndexError)
    may_raise(KeyError)
    may_raise(TypeError)
    may_raise(LinAlgError)
    ensures(db_sealed())


REC_GHOSTS = {"g_epoch": "array[real]", "g_zeta": "array[real]", "g_rows": "list[tuple[int,int]]",
              "g_series": "list[tuple[array[real],array[real]]]", "g_indices": "list[int]", "g_offsets": "array[real]",
              "g_mapping": "dict[int,list[tuple[int,real]]]", "g_ref": "int", "g_mean0": "real", "g_step": "real",
              "g_lv": "list[int]", "g_q": "list[int]"}


@spec
def rec_series_ok(series, rows, epoch, zeta, i):
    """The i-th series holds samples of the i-th interstorm interval only: it starts at the interval's
    start epoch, ends at its thru epoch, stays inside it, and pairs every epoch with a level."""
    return (len(series[i][0]) >= 1 and len(series[i][1]) == len(series[i][0])
            and series[i][0][0] == rows[i][0] and series[i][0][len(series[i][0]) - 1] == rows[i][1]
            and forall(0, len(series[i][0]), lambda k: rows[i][0] <= series[i][0][k] and series[i][0][k] <= rows[i][1])
            and forall(0, len(series[i][0]), lambda k2: forall(0, k2, lambda k: series[i][0][k] < series[i][0][k2])))


@spec
def rcz_row(row, series, mapping, h, q):
    """row = (start epoch of the interval named by the q-th entry of level h, h, that entry's crossing)."""
    return (h in mapping and 0 <= q and q < len(mapping[h])
            and row == (series[mapping[h][q][0]][0][0], h, mapping[h][q][1]))


@contract("spowtd.recession:compute_offsets#reference", db=True,
          args={"cursor": "cursor", "reference_zeta_mm": "real"}, returns="none", ghost_results=REC_GHOSTS, nonlinear="nra")
@contract("spowtd.recession:compute_offsets", db=True,
          args={"cursor": "cursor", "reference_zeta_mm": "none"}, returns="none", ghost_results=REC_GHOSTS)
def _compute_offsets(cursor, reference_zeta_mm):
    """C13 (recession curve): the series handed to the fit are the samples of the interstorm intervals, in
    order; every recession_interval row is the start epoch of an interstorm interval chosen by the fit
    with the fitted offset minus the mean crossing of the origin level; every recession_interval_zeta row
    is (that start epoch, level, crossing) for an entry of the fit's mapping.  C09 as for the rise curve.
    C20: writes only before the commit; nothing committed here."""
    requires(not db_sealed())
    modifies("__db__")
    may_raise(ValueError)
    may_raise(AssertionError)
    may_raise(IndexError)
    may_raise(KeyError)
    may_raise(TypeError)
    may_raise(LinAlgError)
    ghost(after="epoch, zeta_mm = ", let="g_epoch", do=lambda: epoch)
    ghost(after="epoch, zeta_mm = ", let="g_zeta", do=lambda: zeta_mm)
    ghost(after="series = []", let="g_rows", do=lambda: cursor.fetchall())
    ghost(after="indices, offsets, head_mapping = get_series_time_offsets(", let="g_series", do=lambda: series)
    ghost(after="indices, offsets, head_mapping = get_series_time_offsets(", let="g_indices", do=lambda: indices)
    ghost(after="indices, offsets, head_mapping = get_series_time_offsets(", let="g_offsets", do=lambda: offsets)
    ghost(after="indices, offsets, head_mapping = get_series_time_offsets(", let="g_mapping", do=lambda: head_mapping)
    ghost(after="indices, offsets, head_mapping = get_series_time_offsets(", let="g_step", do=lambda: delta_z_mm)
    ghost(after="mean_zero_crossing_time_s = ", let="g_ref", do=lambda: reference_index)
    ghost(after="mean_zero_crossing_time_s = ", let="g_mean0", do=lambda: mean_zero_crossing_time_s)
    ghost(after="mean_zero_crossing_time_s = ", let="g_lv", do=lambda: [])
    ghost(after="mean_zero_crossing_time_s = ", let="g_q", do=lambda: [])
    ghost(before="cursor.execute('\\n            INSERT INTO recession_interval_zeta", let="g_lv", do=lambda: g_lv + [discrete_zeta])
    ghost(before="cursor.execute('\\n            INSERT INTO recession_interval_zeta", let="g_q", do=lambda: g_q + [loop_it(3)])
    ghost(before="raise ValueError('Reference zeta", do=lambda: cut(not is_integer(reference_zeta_mm / delta_z_mm)))
    ensures(not db_sealed())
    ensures(len(g_series) == len(g_rows))
    ensures(forall(0, len(g_rows), lambda i: uf_int("is_interstorm_start", g_rows[i][0]) == 1))
    ensures(forall(0, len(g_series), lambda i: rec_series_ok(g_series, g_rows, g_epoch, g_zeta, i)))
    ensures(g_ref in g_mapping)
    ensures(implies(reference_zeta_mm is None, forall_int(lambda h: implies(h in g_mapping, h <= g_ref))))
    ensures(implies(reference_zeta_mm is not None, on_grid(reference_zeta_mm, g_step, g_ref)))
    ensures(len(db_rows("recession_interval")) == len(db_rows_before("recession_interval")) + len(g_indices))
    ensures(forall(len(db_rows_before("recession_interval")), len(db_rows("recession_interval")), lambda K:
            db_rows("recession_interval")[K]
            == (g_series[g_indices[K - len(db_rows_before("recession_interval"))]][0][0],
                g_offsets[K - len(db_rows_before("recession_interval"))] - g_mean0)))
    ensures(len(db_rows("recession_interval_zeta")) == len(db_rows_before("recession_interval_zeta")) + len(g_lv)
            and len(g_q) == len(g_lv))
    ensures(forall(len(db_rows_before("recession_interval_zeta")), len(db_rows("recession_interval_zeta")), lambda K:
            rcz_row(db_rows("recession_interval_zeta")[K], g_series, g_mapping,
                    g_lv[K - len(db_rows_before("recession_interval_zeta"))], g_q[K - len(db_rows_before("recession_interval_zeta"))])))
    loop(0, types={"series": "list[tuple[array[real],array[real]]]"},
         inv=lambda it: not db_sealed() and len(series) == it
         and db_rows("recession_interval") == db_rows_before("recession_interval")
         and db_rows("recession_interval_zeta") == db_rows_before("recession_interval_zeta")
         and forall(0, it, lambda i: rec_series_ok(series, g_rows, epoch, zeta_mm, i)))
    loop(1, inv=lambda it: not db_sealed()
         and db_rows("recession_interval_zeta") == db_rows_before("recession_interval_zeta")
         and len(db_rows("recession_interval")) == len(db_rows_before("recession_interval")) + it
         and forall(len(db_rows_before("recession_interval")), len(db_rows("recession_interval")), lambda K:
            db_rows("recession_interval")[K]
            == (series[indices[K - len(db_rows_before("recession_interval"))]][0][0],
                offsets[K - len(db_rows_before("recession_interval"))] - mean_zero_crossing_time_s)))
    loop(2, types={"g_lv": "list[int]", "g_q": "list[int]"}, inv=lambda it: not db_sealed()
         and db_rows("recession_interval") == g_ri_done
         and len(db_rows("recession_interval_zeta")) == len(db_rows_before("recession_interval_zeta")) + len(g_lv) and len(g_q) == len(g_lv)
         and forall(len(db_rows_before("recession_interval_zeta")), len(db_rows("recession_interval_zeta")), lambda K:
            rcz_row(db_rows("recession_interval_zeta")[K], series, head_mapping,
                    g_lv[K - len(db_rows_before("recession_interval_zeta"))], g_q[K - len(db_rows_before("recession_interval_zeta"))])))
    loop(3, inv=lambda it: not db_sealed()
         and db_rows("recession_interval") == g_ri_done
         and len(db_rows("recession_interval_zeta")) == len(db_rows_before("recession_interval_zeta")) + len(g_lv) and len(g_q) == len(g_lv)
         and forall(len(db_rows_before("recession_interval_zeta")), len(db_rows("recession_interval_zeta")), lambda K:
            rcz_row(db_rows("recession_interval_zeta")[K], series, head_mapping,
                    g_lv[K - len(db_rows_before("recession_interval_zeta"))], g_q[K - len(db_rows_before("recession_interval_zeta"))])))
    ghost(before="for discrete_zeta, crossings in head_mapping.items()", let="g_ri_done", do=lambda: db_rows("recession_interval"))


@contract("spowtd.recession:find_recession_offsets#reference", db=True,
          args={"connection": "connection", "reference_zeta_mm": "real"}, returns="none")
@contract("spowtd.recession:find_recession_offsets", db=True,
          args={"connection": "connection", "reference_zeta_mm": "none"}, returns="none")
def _find_recession_offsets(connection, reference_zeta_mm):
    requires(not db_sealed())
    modifies("__db__")
    may_raise(ValueError)
    may_raise(AssertionError)
    may_raise(IndexError)
    may_raise(KeyError)
    may_raise(TypeError)
    may_raise(LinAlgError)
    ensures(db_sealed())
