"""Sidecar contracts for spowtd/load.py (C10, C11)."""
from pyvc.spec import *   # noqa


@contract("spowtd.load:populate_grid_time", db=True, args={"cursor": "cursor", "time_zone_name": "const:UTC"},
          returns="tuple[list[int],int]", ghost_results={"g_rows": "list[tuple[int]]"})
def _populate_grid_time(cursor, time_zone_name, result):
    """C10: the grid is the staged rainfall instants within the water-level span plus one closing
    instant, uniformly spaced with a positive step.  C11: anything else (fewer than two instants,
    unequal steps) is refused with ValueError — the refusal branch is only reached then."""
    requires(not db_sealed())
    modifies("__db__")
    may_raise(ValueError)
    may_raise(IndexError)
    ghost(after="time_grid = [", let="g_rows", do=lambda: cursor.fetchall())
    ghost(before="raise ValueError('Nonuniform", do=lambda: cut(
        len(time_grid) < 2 or exists(0, len(time_grid) - 1, lambda i:
                                     time_grid[i + 1] - time_grid[i] != time_grid[1] - time_grid[0])))
    ensures(len(g_rows) >= 2 and len(result[0]) == len(g_rows) + 1)
    ensures(forall(0, len(g_rows), lambda i: result[0][i] == g_rows[i][0]))
    ensures(result[1] > 0)
    ensures(forall(0, len(result[0]) - 1, lambda i: result[0][i + 1] - result[0][i] == result[1]))


@contract("spowtd.load:generate_timestamped_rows", args={"rows": "list[list[int]]", "tz": "tz"}, returns="list[list[int]]")
def _generate_timestamped_rows(rows, tz, result):
    """C11: each yielded row starts with an integer epoch whose rendering in the declared zone is the
    wall time written in the input row (texts and values are modelled by integer identities); the other
    fields are passed through; a non-integer number of seconds is refused."""
    requires(forall(0, len(rows), lambda k: len(rows[k]) >= 1))
    may_raise(ValueError)
    ensures(len(result) == len(rows))
    ensures(forall(0, len(result), lambda k: len(result[k]) == len(rows[k])
                   and uf_int("wall_of", tz.id, result[k][0]) == uf_int("parse_wall", rows[k][0])
                   and forall(1, len(rows[k]), lambda q: result[k][q] == rows[k][q])))
    loop(0, types={"__yielded__": "list[list[int]]"}, inv=lambda it: len(__yielded__) == it
         and forall(0, it, lambda k: len(__yielded__[k]) == len(rows[k])
                    and uf_int("wall_of", tz.id, __yielded__[k][0]) == uf_int("parse_wall", rows[k][0])
                    and forall(1, len(rows[k]), lambda q: __yielded__[k][q] == rows[k][q])))


@contract("spowtd.load:populate_evapotranspiration", db=True,
          args={"cursor": "cursor", "time_grid": "list[int]", "time_step": "int", "tz": "tz"}, returns="none",
          ghost_results={"g_missing": "list[tuple[int]]"})
def _populate_evapotranspiration(cursor, time_grid, time_step, tz):
    """C11: if any grid instant has no staged ET value the function raises ValueError before writing
    anything; it only returns (after its single INSERT) when none is missing."""
    requires(not db_sealed())
    requires(len(time_grid) >= 2)
    modifies("__db__")
    may_raise(ValueError)
    ghost(after="missing_epochs = [", let="g_missing", do=lambda: cursor.fetchall())
    ghost(before="raise ValueError('No ET data", do=lambda: cut(len(g_missing) >= 1))
    ensures(len(g_missing) == 0)
    ensures(forall_int(lambda e: implies(uf_int("on_grid", e) == 1, uf_int("has_staged_et", e) != 0)))


@contract("spowtd.load:populate_rainfall_intensity", db=True,
          args={"cursor": "cursor", "time_grid": "list[int]", "time_step": "int"}, returns="none")
def _populate_rainfall_intensity(cursor, time_grid, time_step):
    requires(not db_sealed())
    requires(len(time_grid) >= 2)
    modifies("__db__")
