"""Sidecar contracts for spowtd/load.py (C10, C11)."""
from pyvc.spec import *   # noqa


@contract("spowtd.load:populate_grid_time", db=True, args={"cursor": "cursor", "time_zone_name": "const:UTC"},
          returns="tuple[list[int],int]", ghost_results={"g_rows": "list[tuple[int]]"})
def _populate_grid_time(cursor, time_zone_name, result):
    """C10: the grid is the staged rainfall instants within the water-level span plus one closing
    instant, uniformly spaced with a positive step.  C11: anything else (fewer than two instants,
    unequal steps) is refused with ValueError — the refusal branch is only reached then."""
    requires(not db_sealed())
    modifies("__db__")
    may_raise(ValueError)
    may_raise(IndexError)
    ghost(after="time_grid = [", let="g_rows", do=lambda: cursor.fetchall())
    ghost(before="raise ValueError('Nonuniform", do=lambda: cut(
        len(time_grid) < 2 or exists(0, len(time_grid) - 1, lambda i:
                                     time_grid[i + 1] - time_grid[i] != time_grid[1] - time_grid[0])))
    ensures(len(g_rows) >= 2 and len(result[0]) == len(g_rows) + 1)
    ensures(forall(0, len(g_rows), lambda i: result[0][i] == g_rows[i][0]))
    ensures(result[1] > 0)
    ensures(forall(0, len(result[0]) - 1, lambda i: result[0][i + 1] - result[0][i] == result[1]))
    # what populate_water_level requires of the grid it is given
    ensures(forall(0, len(result[0]), lambda j: forall(0, j, lambda i: result[0][i] < result[0][j])))
    ensures(not db_sealed())
    ensures(len(db_rows("grid_time_label")) == len(db_rows_before("grid_time_label"))
            and len(db_rows("water_level")) == len(db_rows_before("water_level")))
    ensures(uf_int("n_staged_wl") >= 2)
    ensures(uf_int("min_staged_wl") <= result[0][0] and result[0][len(result[0]) - 2] <= uf_int("max_staged_wl"))


@contract("spowtd.load:generate_timestamped_rows", args={"rows": "list[list[int]]", "tz": "tz"}, returns="list[list[int]]")
def _generate_timestamped_rows(rows, tz, result):
    """C11: each yielded row starts with an integer epoch whose rendering in the declared zone is the
    wall time written in the input row (texts and values are modelled by integer identities); the other
    fields are passed through; a non-integer number of seconds is refused."""
    may_raise(ValueError)
    may_raise(IndexError)            # a row without any field (blank line in the file)
    ensures(len(result) == len(rows))
    ensures(forall(0, len(result), lambda k: len(result[k]) == len(rows[k])
                   and uf_int("wall_of", tz.id, result[k][0]) == uf_int("parse_wall", rows[k][0])
                   and forall(1, len(rows[k]), lambda q: result[k][q] == rows[k][q])))
    loop(0, types={"__yielded__": "list[list[int]]"}, inv=lambda it: len(__yielded__) == it
         and forall(0, it, lambda k: len(__yielded__[k]) == len(rows[k])
                    and uf_int("wall_of", tz.id, __yielded__[k][0]) == uf_int("parse_wall", rows[k][0])
                    and forall(1, len(rows[k]), lambda q: __yielded__[k][q] == rows[k][q])))


@contract("spowtd.load:populate_evapotranspiration", db=True,
          args={"cursor": "cursor", "time_grid": "list[int]", "time_step": "int", "tz": "tz"}, returns="none",
          ghost_results={"g_missing": "list[tuple[int]]"})
def _populate_evapotranspiration(cursor, time_grid, time_step, tz):
    """C11: if any grid instant has no staged ET value the function raises ValueError before writing
    anything; it only returns (after its single INSERT) when none is missing."""
    requires(not db_sealed())
    requires(len(time_grid) >= 2)
    modifies("__db__")
    may_raise(ValueError)
    ghost(after="missing_epochs = [", let="g_missing", do=lambda: cursor.fetchall())
    ghost(before="raise ValueError('No ET data", do=lambda: cut(len(g_missing) >= 1))
    ensures(len(g_missing) == 0)
    ensures(forall_int(lambda e: implies(uf_int("on_grid", e) == 1, uf_int("has_staged_et", e) != 0)))
    ensures(not db_sealed())
    ensures(len(db_rows("grid_time_label")) == len(db_rows_before("grid_time_label"))
            and len(db_rows("water_level")) == len(db_rows_before("water_level")))


@contract("spowtd.load:populate_rainfall_intensity", db=True,
          args={"cursor": "cursor", "time_grid": "list[int]", "time_step": "int"}, returns="none")
def _populate_rainfall_intensity(cursor, time_grid, time_step):
    requires(not db_sealed())
    requires(len(time_grid) >= 2)
    modifies("__db__")
    ensures(not db_sealed())
    ensures(len(db_rows("grid_time_label")) == len(db_rows_before("grid_time_label"))
            and len(db_rows("water_level")) == len(db_rows_before("water_level")))


# --------------------------------------------------------------------------- populate_water_level (C10)

@spec
def is_gap(t, mstep, s):
    """Source samples s and s+1 are separated by more than the minimal step of the record."""
    return t[s + 1] - t[s] != mstep


@spec
def in_gap(t, mstep, e):
    """Instant e lies strictly inside a gap of the source record."""
    return exists(0, len(t) - 1, lambda s: is_gap(t, mstep, s) and t[s] < e and e < t[s + 1])


@spec
def separated(t, mstep, e1, e2):
    """A gap of the source record lies between instants e1 <= e2."""
    return exists(0, len(t) - 1, lambda s: is_gap(t, mstep, s) and e1 <= t[s] and t[s + 1] <= e2)


@spec
def bracketed(t, z, e, v):
    """v is the straight-line interpolation at e between two adjacent source measurements that bracket e."""
    return exists(0, len(t) - 1, lambda s: t[s] <= e and e <= t[s + 1]
                  and v == z[s] + (e - t[s]) * (z[s + 1] - z[s]) / (t[s + 1] - t[s]))


@spec
def st_start(T, t, gaps, k):
    return T[0] if k == 0 else t[gaps[k - 1] + 1]


@spec
def st_end(T, t, gaps, k):
    return T[len(T) - 1] if k == len(gaps) else t[gaps[k]]


@contract("spowtd.load:populate_water_level", db=True, args={"cursor": "cursor", "time_grid": "list[int]"}, returns="none",
          ghost_results={"g_t": "array[int]", "g_z": "list[real]", "g_min": "int", "g_lab": "array[int]", "g_valid": "array[bool]", "g_src": "array[int]"})
def _populate_water_level(cursor, time_grid):
    """C10, third and fourth sentence.  g_t / g_z: the staged source record; g_min: its minimal step;
    g_lab: the label of every grid instant (-1 = none); g_src: the positions of the labelled instants.
    * an instant is left without label exactly when it lies strictly inside a gap of the source record;
    * two labelled instants carry the same label exactly when no gap separates them;
    * the label updates are the labelled instants in order; the water-level rows are the labelled instants
      before the closing one, in order, each with the straight-line interpolation between the two adjacent
      source measurements that bracket it."""
    requires(not db_sealed())
    requires(len(db_rows("grid_time_label")) == 0 and len(db_rows("water_level")) == 0)
    requires(len(time_grid) >= 2)
    requires(forall(0, len(time_grid), lambda j: forall(0, j, lambda i: time_grid[i] < time_grid[j])))
    # Loaded(db) facts established by populate_grid_time: the grid without its closing instant lies within the
    # span of the staged water levels, of which there are at least two
    requires(uf_int("n_staged_wl") >= 2)
    requires(uf_int("min_staged_wl") <= time_grid[0] and time_grid[len(time_grid) - 2] <= uf_int("max_staged_wl"))
    modifies("__db__")
    ghost(after="zeta_t = np.array(zeta_t)", let="g_t", do=lambda: zeta_t)
    ghost(after="zeta_t = np.array(zeta_t)", let="g_z", do=lambda: zeta_mm)
    ghost(after="gap_i = ", let="g_min", do=lambda: time_steps.min())
    # the gaps in ascending order: measurements at and after them are ordered accordingly (transitive form)
    ghost(after="gap_i = ", do=lambda: cut(forall(0, len(gap_i), lambda g: 0 <= gap_i[g] and gap_i[g] < len(zeta_t) - 1
                                                  and is_gap(zeta_t, g_min, gap_i[g]))))
    ghost(after="gap_i = ", do=lambda: cut(forall(0, len(zeta_t) - 1, lambda s: implies(
        is_gap(zeta_t, g_min, s), exists(0, len(gap_i), lambda g: gap_i[g] == s)))))
    ghost(after="gap_i = ", do=lambda: cut(forall(0, len(gap_i), lambda g2: forall(0, g2 + 1, lambda g:
                                           zeta_t[gap_i[g]] <= zeta_t[gap_i[g2]] and zeta_t[gap_i[g] + 1] <= zeta_t[gap_i[g2] + 1]))))
    ghost(after="gap_i = ", do=lambda: cut(forall(0, len(zeta_t) - 1, lambda s: zeta_t[s] < zeta_t[s + 1])))
    ghost(after="valid_intervals = [", do=lambda: cut(
        len(valid_intervals) == len(gap_i) + 1
        and forall(0, len(valid_intervals), lambda k: valid_intervals[k][2] != -1
                   and valid_intervals[k][0] == st_start(time_grid, zeta_t, gap_i, k)
                   and valid_intervals[k][1] == st_end(time_grid, zeta_t, gap_i, k))))
    # the labels of different stretches differ (what the labels are is left open)
    ghost(after="valid_intervals = [", do=lambda: cut(forall(0, len(valid_intervals), lambda k2: forall(0, k2, lambda k:
                                                       valid_intervals[k][2] != valid_intervals[k2][2]))))
    # g_k: per grid instant, the stretch whose label it carries (-1: none)
    ghost(after="data_intervals[:] = -1", let="g_k", do=lambda: [-1 for i in range(len(time_grid))])
    ghost(after="data_intervals[(time_grid >= start)", let="g_k",
          do=lambda: [(loop_it(0) if (time_grid[i] >= start and time_grid[i] <= through) else g_k[i]) for i in range(len(time_grid))])
    loop(0, types={"g_k": "list[int]"},
         inv=lambda it: len(data_intervals) == len(time_grid) and len(g_k) == len(time_grid) and forall(0, len(time_grid), lambda i:
         ((data_intervals[i] == -1 and g_k[i] == -1
           and forall(0, it, lambda k: not (st_start(time_grid, zeta_t, gap_i, k) <= time_grid[i]
                                            and time_grid[i] <= st_end(time_grid, zeta_t, gap_i, k))))
          or (0 <= g_k[i] and g_k[i] < it and data_intervals[i] == valid_intervals[g_k[i]][2]
              and st_start(time_grid, zeta_t, gap_i, g_k[i]) <= time_grid[i]
              and time_grid[i] <= st_end(time_grid, zeta_t, gap_i, g_k[i])))
         and implies(it >= 1 and time_grid[i] <= st_end(time_grid, zeta_t, gap_i, it - 1),
                     g_k[i] != -1 or in_gap(zeta_t, g_min, time_grid[i]))))
    ghost(before="valid_mask = ", let="g_lab", do=lambda: data_intervals)
    ghost(after="valid_mask = ", let="g_valid", do=lambda: valid_mask)
    ghost(after="valid_mask = ", let="g_src", do=lambda: np.nonzero(valid_mask)[0])
    ensures(not db_sealed())
    ensures(len(g_t) == len(g_z) and len(g_t) >= 2)
    ensures(forall(0, len(g_t) - 1, lambda s: g_min <= g_t[s + 1] - g_t[s]))
    ensures(exists(0, len(g_t) - 1, lambda s: g_min == g_t[s + 1] - g_t[s]))
    ensures(len(g_lab) == len(time_grid))
    ensures(forall(0, len(time_grid), lambda i: (g_lab[i] == -1) == in_gap(g_t, g_min, time_grid[i])))
    ensures(forall(0, len(time_grid), lambda j: forall(0, j, lambda i: implies(
        g_lab[i] != -1 and g_lab[j] != -1, (g_lab[i] != g_lab[j]) == separated(g_t, g_min, time_grid[i], time_grid[j])))))
    # the labelled instants, in order
    ensures(forall(0, len(g_src), lambda r: 0 <= g_src[r] and g_src[r] < len(time_grid) and g_lab[g_src[r]] != -1))
    ensures(forall(0, len(g_src), lambda r2: forall(0, r2, lambda r: g_src[r] < g_src[r2])))
    ensures(len(g_valid) == len(time_grid) and forall(0, len(time_grid), lambda i: g_valid[i] == (g_lab[i] != -1)))
    ensures(forall(0, len(time_grid), lambda i: implies(g_valid[i], exists(0, len(g_src), lambda r: g_src[r] == i))))
    ensures(len(db_rows("grid_time_label")) == len(g_src))
    ensures(forall(0, len(g_src), lambda r: db_rows("grid_time_label")[r][0] == g_lab[g_src[r]]
                   and db_rows("grid_time_label")[r][1] == time_grid[g_src[r]]))
    # water levels: every labelled instant but the closing one
    ensures(len(db_rows("water_level")) == len(g_src) - (1 if g_lab[len(time_grid) - 1] != -1 else 0))
    ensures(forall(0, len(db_rows("water_level")), lambda r: db_rows("water_level")[r][0] == time_grid[g_src[r]]
                   and bracketed(g_t, g_z, time_grid[g_src[r]], db_rows("water_level")[r][1])))


# --------------------------------------------------------------------------- load_data (C10 / C11: the glue)

@contract("spowtd.load:load_data", db=True,
          args={"connection": "connection", "precipitation_data_file": "file", "evapotranspiration_data_file": "file",
                "water_level_data_file": "file", "time_zone_name": "const:UTC"}, returns="none",
          ghost_results={"g_tables": "list[tuple[int]]", "g_rows": "list[tuple[int]]", "g_lab": "array[int]"})
def _load_data(connection, precipitation_data_file, evapotranspiration_data_file, water_level_data_file, time_zone_name):
    """C11, third refusal: a dataset that already holds tables is refused with ValueError before anything is written,
    and the step only completes for an empty one.  Glue: the staging inserts, then populate_grid_time,
    populate_rainfall_intensity, populate_evapotranspiration, populate_water_level are called in that order with
    their preconditions established at the call sites (in particular what populate_water_level requires of the grid
    follows from what populate_grid_time ensures), nothing is written after the single commit at the end."""
    requires(not db_sealed())
    modifies("__db__")
    may_raise(ValueError)            # the refusals of the populate_* functions and of generate_timestamped_rows
    may_raise(AssertionError)        # header checks on opaque strings
    may_raise(IndexError)
    ghost(after="tables = [", let="g_tables", do=lambda: cursor.fetchall())
    ghost(before="raise ValueError('Database already populated", do=lambda: cut(len(g_tables) >= 1 and
          len(db_rows("water_level")) == len(db_rows_before("water_level")) and
          len(db_rows("rainfall_intensity_staging")) == len(db_rows_before("rainfall_intensity_staging"))))
    ensures(len(g_tables) == 0)
    ensures(db_sealed())
    # every instant of the stored grid (g_rows: populate_grid_time's staged instants, plus the closing one) was
    # offered to populate_water_level for a label / a water level (g_lab: its per-instant labels)
    ensures(len(g_lab) == len(g_rows) + 1)
