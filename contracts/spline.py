"""Sidecar contracts for spowtd/spline.py and the spline specific yield (C14)."""
from pyvc.spec import *   # noqa

TCK = "tuple[array[real],int,int]"     # (knots, identity of the coefficient vector, degree)


@spec
def lo_knot(s):
    return s._tck[0][0]


@spec
def hi_knot(s):
    return s._tck[0][len(s._tck[0]) - 1]


@spec
def clamp(s, x):
    return lo_knot(s) if x < lo_knot(s) else (hi_knot(s) if x > hi_knot(s) else x)


@spec
def S_of(s, x):
    """Value of the FITPACK spline at x (uninterpreted; only evaluated inside the knot range)."""
    return uf_real("splev", s._tck[1], x)


@spec
def G_of(s, x):
    """An antiderivative of the clamped spline: F inside the knots, straight lines with the end
    values outside (constant extrapolation)."""
    return (uf_real("splint_F", s._tck[1], clamp(s, x))
            + S_of(s, lo_knot(s)) * (x - lo_knot(s) if x < lo_knot(s) else 0)
            + S_of(s, hi_knot(s)) * (x - hi_knot(s) if x > hi_knot(s) else 0))


@contract("spowtd.spline:Spline.domain", self_fields={"_tck": TCK}, args={}, returns="tuple[real,real]")
def _domain(self, result):
    requires(len(self._tck[0]) >= 2)
    ensures(result[0] == lo_knot(self) and result[1] == hi_knot(self))


@contract("spowtd.spline:Spline.from_points", args={"points": "list[tuple[real,real]]", "s": "int", "order": "int"},
          returns="obj[spowtd.spline:Spline]")
def _from_points(points, s, order, result):
    """Assumed contract of FITPACK splrep(s=0): the interpolating spline through the points, its
    knot range the range of the abscissae (validated bounded); the refusals are the code's own."""
    requires(s == 0 and (order == 1 or order == 3) and len(points) > order)
    raises(ValueError, when=exists(0, len(points) - 1, lambda i: not (points[i + 1][0] - points[i][0] > 0)))
    ensures(len(result._tck[0]) >= 2 and lo_knot(result) == points[0][0] and hi_knot(result) == points[len(points) - 1][0])
    ensures(forall(0, len(points), lambda i: S_of(result, points[i][0]) == points[i][1]))


@contract("spowtd.spline:Spline.__call__", self_fields={"_tck": TCK}, args={"x": "real", "der": "int"}, returns="real",
          vectorized=["x"])
def _call(self, x, der, result):
    """C14: the value at the argument clamped to the knot range (constant outside it)."""
    requires(len(self._tck[0]) >= 2 and lo_knot(self) < hi_knot(self))
    requires(der == 0)
    ensures(result == S_of(self, clamp(self, x)))


@contract("spowtd.spline:Spline.integrate", self_fields={"_tck": TCK}, args={"a": "real", "b": "real"},
          returns="real", nonlinear="nra")
def _integrate(self, a, b, result):
    """C14: integrate(a, b) = G(b) - G(a) for one antiderivative G of the clamped spline, for
    every position of a and b relative to the knot range and in either order."""
    requires(len(self._tck[0]) >= 2 and lo_knot(self) < hi_knot(self))
    ensures(result == G_of(self, b) - G_of(self, a))


@lemma(args={"ga": "real", "gb": "real", "gc": "real", "iab": "real", "ibc": "real", "iac": "real", "iba": "real"})
def integral_additive_antisymmetric(ga, gb, gc, iab, ibc, iac, iba):
    """Over the contract of integrate: integrals are additive over adjacent ranges and change sign
    when the limits are swapped (whatever the positions of a, b, c)."""
    requires(iab == gb - ga and ibc == gc - gb and iac == gc - ga and iba == ga - gb)
    ensures(iac == iab + ibc)
    ensures(iba == -iab)


# --------------------------------------------------------------------------- specific yield wrappers

@contract("spowtd.specific_yield:SpecificYield.__call__", self_fields={"_spline": "obj[spowtd.spline:Spline]"},
          args={"water_level_mm": "real"}, returns="real", vectorized=["water_level_mm"])
def _sy_call(self, water_level_mm, result):
    requires(len(self._spline._tck[0]) >= 2 and lo_knot(self._spline) < hi_knot(self._spline))
    ensures(result == S_of(self._spline, clamp(self._spline, water_level_mm)))


@contract("spowtd.specific_yield:SpecificYield.integrate", self_fields={"_spline": "obj[spowtd.spline:Spline]"},
          args={"lo_water_level_mm": "real", "hi_water_level_mm": "real"}, returns="real")
def _sy_integrate(self, lo_water_level_mm, hi_water_level_mm, result):
    """The integral of the specific yield between two levels, as G(hi) - G(lo)."""
    requires(len(self._spline._tck[0]) >= 2 and lo_knot(self._spline) < hi_knot(self._spline))
    ensures(result == G_of(self._spline, hi_water_level_mm) - G_of(self._spline, lo_water_level_mm))
