"""Contracts of the remaining workflow steps (zeta grid, curvature) — C13 grid range, C20 typestate."""
from pyvc.spec import *   # noqa


@contract("spowtd.zeta_grid:populate_zeta_grid", db=True,
          args={"connection": "connection", "grid_interval_mm": "real"}, returns="none",
          ghost_results={"g_min": "real", "g_max": "real"}, nonlinear="nra")
def _populate_zeta_grid(connection, grid_interval_mm):
    """C13: discrete_zeta receives exactly the level numbers floor(min/step) .. ceil(max/step) - 1,
    in order (so the cells [k step, (k+1) step] cover [min, max]); C20: no commit inside the step
    (the enclosing `with` commits), every write before it."""
    requires(not db_sealed())
    requires(grid_interval_mm > 0)
    modifies("__db__")
    ensures(not db_sealed())
    ensures(len(db_rows("zeta_grid")) == len(db_rows_before("zeta_grid")) + 1)
    ensures(db_rows("zeta_grid")[len(db_rows_before("zeta_grid"))] == (grid_interval_mm,))
    ghost(after="zeta_bounds = cursor.fetchone()", let="g_min", do=lambda: zeta_bounds[0])
    ghost(after="zeta_bounds = cursor.fetchone()", let="g_max", do=lambda: zeta_bounds[1])
    ensures(g_min <= g_max)
    ensures(len(db_rows("discrete_zeta")) == len(db_rows_before("discrete_zeta"))
            + (ceil_int(g_max / grid_interval_mm) - floor_int(g_min / grid_interval_mm)
               if ceil_int(g_max / grid_interval_mm) > floor_int(g_min / grid_interval_mm) else 0))
    ensures(forall(len(db_rows_before("discrete_zeta")), len(db_rows("discrete_zeta")), lambda K:
            db_rows("discrete_zeta")[K] == (floor_int(g_min / grid_interval_mm) + (K - len(db_rows_before("discrete_zeta"))),)))
    # coverage: the cells of the grid cover the observed range
    ensures(floor_int(g_min / grid_interval_mm) * grid_interval_mm <= g_min
            and g_max <= ceil_int(g_max / grid_interval_mm) * grid_interval_mm)


@contract("spowtd.set_curvature:set_curvature", db=True,
          args={"connection": "connection", "curvature_m_km2": "real"}, returns="none")
def _set_curvature(connection, curvature_m_km2):
    requires(not db_sealed())
    modifies("__db__")
    ensures(not db_sealed())
    ensures(len(db_rows("curvature")) == len(db_rows_before("curvature")) + 1)
    ensures(db_rows("curvature")[len(db_rows_before("curvature"))] == (curvature_m_km2,))
