"""Sidecar contracts for spowtd/classify.py (parsed by pyvc; importable for the native reading)."""
from pyvc.spec import *   # noqa


@spec
def settled(jump, rain, k):
    """Some rainy step r <= k exists and nothing since r is rainy or a jump."""
    return exists(0, k + 1, lambda r: rain[r] and forall(r + 1, k + 1, lambda q: not rain[q] and not jump[q]))


@contract("spowtd.classify:assert_equal", args={"a": "int", "b": "int", "message": "none"}, returns="none")
def _assert_equal(a, b, message):
    requires(a == b)


@contract("spowtd.classify:get_mystery_jump_mask",
          args={"is_jump": "array[bool]", "is_raining": "array[bool]"}, returns="array[bool]")
def _get_mystery_jump_mask(is_jump, is_raining, result):
    requires(len(is_jump) == len(is_raining))
    ensures(len(result) == len(is_jump))
    ensures(forall(0, len(result), lambda i: result[i] == (not settled(is_jump, is_raining, i))))
    loop(0, inv=lambda it: len(mystery_jump_mask) == len(is_jump)
         and in_mystery == (not settled(is_jump, is_raining, it - 1))
         and forall(0, it, lambda k: mystery_jump_mask[k] == (not settled(is_jump, is_raining, k))))


@spec
def is_maximal_run(bv, mask):
    """mask is the indicator of one maximal run of True values of bv (universal reading)."""
    return (len(mask) == len(bv)
            and exists(0, len(bv), lambda k: mask[k])
            and forall(0, len(bv), lambda k: implies(mask[k], bv[k]))
            and forall(0, len(bv), lambda i: forall(i, len(bv), lambda j: implies(
                mask[i] and mask[j], forall(i, j, lambda l: mask[l], trigger=lambda l: (mask[i], mask[j], mask[l])))))
            and forall(1, len(bv), lambda k: implies(mask[k] and bv[k - 1], mask[k - 1]),
                       trigger=lambda k: (mask[k], bv[k - 1]))
            and forall(0, len(bv) - 1, lambda k: implies(mask[k] and bv[k + 1], mask[k + 1]),
                       trigger=lambda k: (mask[k], bv[k + 1])))


@contract("spowtd.classify:get_true_interval_masks",
          args={"boolean_vector": "array[bool]"}, returns="list[array[bool]]")
def _get_true_interval_masks(boolean_vector, result):
    """C01/C03/C04: the result is, in order, the indicator vectors of all maximal True runs."""
    ghost(after="indices = np.cumsum(",
          do=lambda: run_counter_basic(boolean_vector, indices) and run_counter_separation(boolean_vector, indices))
    ghost(after="unique_indices = sorted(", do=lambda: cut(forall(0, len(boolean_vector), lambda k: implies(
        boolean_vector[k], exists(0, len(unique_indices), lambda r: unique_indices[r] == indices[k])))))
    ensures(forall(0, len(result), lambda r: is_maximal_run(boolean_vector, result[r])))
    # ordered and pairwise disjoint
    ensures(forall(0, len(result), lambda r: forall(r + 1, len(result), lambda s: forall(
        0, len(boolean_vector), lambda i: forall(0, len(boolean_vector), lambda j: implies(
            result[r][i] and result[s][j], i < j))))))
    # every True element is covered
    ensures(forall(0, len(boolean_vector), lambda k: implies(
        boolean_vector[k], exists(0, len(result), lambda r: result[r][k]))))


# --------------------------------------------------------------------------- deferred acceptance

@spec
def gs_matched(cand, old_cand, matches, s):
    """Storm s currently holds a rise: the last candidate it proposed to (lists shrink from the end)."""
    return (len(cand[s]) < len(old_cand[s])
            and old_cand[s][len(cand[s])] in matches
            and matches[old_cand[s][len(cand[s])]] == s)


@contract("spowtd.classify:find_stable_matching",
          args={"storm_candidates": "dict[int,list[int]]", "jump_preferences": "dict[int,dict[int,real]]"},
          returns="dict[int,int]")
def _find_stable_matching(storm_candidates, jump_preferences, result):
    """C01: one-to-one, candidate pairs only.  C02: no blocking pair (storm side by list
    position = its duration preference, rise side by preference value)."""
    # candidates of one storm are distinct, and every listed rise ranks that storm
    requires(forall_int(lambda s, k, k2: implies(
        s in storm_candidates and 0 <= k and k < k2 and k2 < len(storm_candidates[s]),
        storm_candidates[s][k] != storm_candidates[s][k2])))
    requires(forall_int(lambda s, k: implies(
        s in storm_candidates and 0 <= k and k < len(storm_candidates[s]),
        storm_candidates[s][k] in jump_preferences and s in jump_preferences[storm_candidates[s][k]])))
    modifies("storm_candidates")
    # frame: lists only shrink from the end
    ensures(forall_int(lambda s: (s in storm_candidates) == (s in old(storm_candidates))))
    ensures(forall_int(lambda s, k: implies(
        s in storm_candidates,
        len(storm_candidates[s]) <= len(old(storm_candidates)[s])
        and implies(0 <= k and k < len(storm_candidates[s]), storm_candidates[s][k] == old(storm_candidates)[s][k]))))
    # every recorded pair is a candidate pair; the rise is the last one its storm proposed to
    ensures(forall_int(lambda j: implies(
        j in result,
        result[j] in old(storm_candidates)
        and len(storm_candidates[result[j]]) < len(old(storm_candidates)[result[j]])
        and old(storm_candidates)[result[j]][len(storm_candidates[result[j]])] == j)))
    # one-to-one
    ensures(forall_int(lambda j1, j2: implies(j1 in result and j2 in result and j1 != j2, result[j1] != result[j2])))
    # stability: no candidate pair (s, j = old[s][k]) blocks the result
    ensures(forall_int(lambda s, k: implies(
        s in old(storm_candidates) and 0 <= k and k < len(old(storm_candidates)[s]),
        not (not (old(storm_candidates)[s][k] in result and result[old(storm_candidates)[s][k]] == s)
             and (not gs_matched(storm_candidates, old(storm_candidates), result, s) or k > len(storm_candidates[s]))
             and (old(storm_candidates)[s][k] not in result
                  or jump_preferences[old(storm_candidates)[s][k]][s]
                  > jump_preferences[old(storm_candidates)[s][k]][result[old(storm_candidates)[s][k]]])))))
    loop(0, types={"matches": "dict[int,int]"}, inv=lambda:
         forall_int(lambda s: (s in storm_candidates) == (s in old(storm_candidates)))
         and forall_int(lambda s, k: implies(
             s in storm_candidates,
             len(storm_candidates[s]) <= len(old(storm_candidates)[s])
             and implies(0 <= k and k < len(storm_candidates[s]),
                         storm_candidates[s][k] == old(storm_candidates)[s][k])))
         # I1: matchable storms have candidates left
         and forall_int(lambda s: implies(s in matchable_storms, s in storm_candidates and len(storm_candidates[s]) > 0))
         # I2 / I4: a matched storm is not matchable and is matched to the last rise it proposed to
         and forall_int(lambda j: implies(
             j in matches,
             matches[j] in storm_candidates and matches[j] not in matchable_storms
             and len(storm_candidates[matches[j]]) < len(old(storm_candidates)[matches[j]])
             and old(storm_candidates)[matches[j]][len(storm_candidates[matches[j]])] == j))
         # I3: every rise a storm has proposed to is matched at least as well
         and forall_int(lambda s, k: implies(
             s in storm_candidates and len(storm_candidates[s]) <= k and k < len(old(storm_candidates)[s]),
             old(storm_candidates)[s][k] in matches
             and jump_preferences[old(storm_candidates)[s][k]][matches[old(storm_candidates)[s][k]]]
             >= jump_preferences[old(storm_candidates)[s][k]][s]))
         # I5: every storm is matchable, exhausted, or matched
         and forall_int(lambda s: implies(
             s in storm_candidates,
             s in matchable_storms or len(storm_candidates[s]) == 0
             or gs_matched(storm_candidates, old(storm_candidates), matches, s))))


# --------------------------------------------------------------------------- native inputs (bounded run-time check / witness search)

@examples("spowtd.classify:get_mystery_jump_mask")
def _ex_mystery(tier, rng):
    import itertools
    import numpy as np
    for n in range(0, 6 if tier == "quick" else 8):
        for bits in itertools.product([False, True], repeat=2 * n):
            yield {"is_jump": np.array(bits[:n], dtype=bool), "is_raining": np.array(bits[n:], dtype=bool)}


@examples("spowtd.classify:get_true_interval_masks")
def _ex_masks(tier, rng):
    from pyvc.native import small_bool_vectors
    for v in small_bool_vectors(8 if tier == "quick" else 12):
        yield {"boolean_vector": v}


@adapter("spowtd.classify:get_true_interval_masks")
def _ad_masks(repo):
    from pyvc.native import resolve_function
    f = resolve_function(repo, "spowtd.classify:get_true_interval_masks")
    return lambda boolean_vector: list(f(boolean_vector))


@examples("spowtd.classify:find_stable_matching")
def _ex_gs(tier, rng):
    """All bipartite candidate graphs on <= 3 storms x <= 3 rises with every ordering of each
    storm's list and preference values in {0,1,2} (ties included), storms keyed 1.., rises 10.."""
    import itertools
    S, J = (3, 3) if tier == "quick" else (3, 4)
    storms = list(range(1, S + 1))
    jumps = list(range(10, 10 + J))
    subsets = []
    for r in range(0, J + 1):
        for sub in itertools.combinations(jumps, r):
            subsets.extend(itertools.permutations(sub))
    count = 0
    limit = 4000 if tier == "quick" else 40000
    combos = list(itertools.product(subsets, repeat=S))
    rng.shuffle(combos)
    for lists in combos:
        prefs = {}
        for s, lst in zip(storms, lists):
            for j in lst:
                prefs.setdefault(j, {})[s] = float(-rng.randint(0, 2))
        yield {"storm_candidates": {s: list(l) for s, l in zip(storms, lists)}, "jump_preferences": prefs}
        count += 1
        if count >= limit:
            return


# --------------------------------------------------------------------------- uniform steps, candidate intervals

@contract("spowtd.classify:check_for_uniform_time_steps", args={"epoch": "array[int]"}, returns="none")
def _check_for_uniform_time_steps(epoch):
    """Refuses (ValueError) exactly the sequences whose consecutive differences are not all equal;
    sequences with fewer than two samples have no differences and are accepted (C01: short stretches)."""
    raises(ValueError, when=exists(0, len(epoch) - 1, lambda i: epoch[i + 1] - epoch[i] != epoch[1] - epoch[0]))


@examples("spowtd.classify:check_for_uniform_time_steps")
def _ex_uniform(tier, rng):
    import itertools
    import numpy as np
    for n in range(0, 5):
        for steps in itertools.product([1, 2, 3], repeat=max(n - 1, 0)):
            e = [100]
            for s in steps:
                e.append(e[-1] + s)
            yield {"epoch": np.array(e[:n] if n else [], dtype=np.int64)}


@spec
def is_run(b, lo, hi):
    """[lo, hi) is a maximal run of True values of b."""
    return (0 <= lo and lo < hi and hi <= len(b)
            and forall(lo, hi, lambda k: b[k])
            and (lo == 0 or not b[lo - 1])
            and (hi == len(b) or not b[hi]))


@spec
def mask_is_interval(mask, lo, hi):
    return forall(0, len(mask), lambda k: mask[k] == (lo <= k and k < hi))


@contract("spowtd.classify:get_candidate_match_intervals",
          args={"head": "array[real]", "jump_threshold": "real", "is_raining": "array[bool]",
                "rain_masks": "list[array[bool]]", "jump_mask": "array[bool]", "storm_index": "int"},
          returns="tuple[tuple[int,int],tuple[int,int]]")
def _get_candidate_match_intervals(head, jump_threshold, is_raining, rain_masks, jump_mask, storm_index, result):
    """C03: the (start, stop) slices of the storm and of the rise are exactly their masks, both
    maximal runs; a rise spans at least two samples, a storm at least one step."""
    requires(len(head) == len(is_raining) and len(head) >= 2)
    requires(0 <= storm_index and storm_index < len(rain_masks))
    requires(is_maximal_run(is_raining, rain_masks[storm_index]))
    requires(len(jump_mask) == len(head) - 1)
    requires(exists(0, len(jump_mask), lambda k: jump_mask[k]))
    requires(forall(0, len(jump_mask), lambda k: implies(jump_mask[k], head[k + 1] - head[k] > jump_threshold)))
    requires(forall(0, len(jump_mask), lambda i: forall(i, len(jump_mask), lambda j: implies(
        jump_mask[i] and jump_mask[j],
        forall(i, j, lambda l: jump_mask[l], trigger=lambda l: (jump_mask[i], jump_mask[j], jump_mask[l]))))))
    requires(forall(1, len(jump_mask), lambda k: implies(
        jump_mask[k] and head[k] - head[k - 1] > jump_threshold, jump_mask[k - 1]),
        trigger=lambda k: (jump_mask[k], head[k - 1])))
    requires(forall(0, len(jump_mask) - 1, lambda k: implies(
        jump_mask[k] and head[k + 2] - head[k + 1] > jump_threshold, jump_mask[k + 1]),
        trigger=lambda k: (jump_mask[k], head[k + 2])))
    ghost(after="rain_stop = ", do=lambda: cut(
        0 <= rain_start and rain_start < rain_stop and rain_stop <= len(is_raining)
        and rain_masks[storm_index][rain_start] and rain_masks[storm_index][rain_stop - 1]
        and forall(0, len(is_raining), lambda k: implies(rain_masks[storm_index][k], rain_start <= k and k < rain_stop))))
    ghost(after="jump_stop = ", do=lambda: cut(
        0 <= jump_start and jump_start + 2 <= jump_stop and jump_stop <= len(head)
        and jump_mask[jump_start] and jump_mask[jump_stop - 2]
        and forall(0, len(jump_mask), lambda k: implies(jump_mask[k], jump_start <= k and k < jump_stop - 1))))
    ensures(is_run(is_raining, result[0][0], result[0][1]))
    ensures(mask_is_interval(rain_masks[storm_index], result[0][0], result[0][1]))
    ensures(0 <= result[1][0] and result[1][0] + 2 <= result[1][1] and result[1][1] <= len(head))
    ensures(mask_is_interval(jump_mask, result[1][0], result[1][1] - 1))
    ensures(forall(result[1][0], result[1][1] - 1, lambda k: head[k + 1] - head[k] > jump_threshold))
    ensures(result[1][0] == 0 or head[result[1][0]] - head[result[1][0] - 1] <= jump_threshold)
    ensures(result[1][1] == len(head) or head[result[1][1]] - head[result[1][1] - 1] <= jump_threshold)


# --------------------------------------------------------------------------- match_storms

@spec
def jump_run(head, thr, lo, hi):
    """[lo, hi) is a slice of >= 2 samples whose increments are a maximal run above thr."""
    return (0 <= lo and lo + 2 <= hi and hi <= len(head)
            and forall(lo, hi - 1, lambda k: head[k + 1] - head[k] > thr)
            and (lo == 0 or head[lo] - head[lo - 1] <= thr)
            and (hi == len(head) or head[hi] - head[hi - 1] <= thr))


@spec
def cand_pair(is_raining, head, thr, ri, hi):
    """A storm slice and a rise slice, both maximal runs, sharing at least one time step."""
    return (is_run(is_raining, ri[0], ri[1]) and jump_run(head, thr, hi[0], hi[1])
            and ri[0] < hi[1] - 1 and hi[0] < ri[1])


@spec
def dm_requires(rain_intervals, jump_intervals):
    return (len(rain_intervals) == len(jump_intervals)
            # intervals are determined by their start (they are maximal runs)
            and forall(0, len(rain_intervals), lambda p: forall(0, len(rain_intervals), lambda q: implies(
                rain_intervals[p][0] == rain_intervals[q][0], rain_intervals[p][1] == rain_intervals[q][1])))
            and forall(0, len(jump_intervals), lambda p: forall(0, len(jump_intervals), lambda q: implies(
                jump_intervals[p][0] == jump_intervals[q][0], jump_intervals[p][1] == jump_intervals[q][1])))
            # no candidate pair is listed twice
            and forall(0, len(rain_intervals), lambda q2: forall(0, q2, lambda q:
                rain_intervals[q][0] != rain_intervals[q2][0] or jump_intervals[q][0] != jump_intervals[q2][0])))


@spec
def listed(cm, s, j, n):
    """(s, j) is one of the first n candidate pairs."""
    return exists(0, n, lambda k: cm[k][0] == s and cm[k][1] == j)


@contract("spowtd.classify:disambiguate_matching",
          args={"rain_intervals": "list[tuple[int,int]]", "jump_intervals": "list[tuple[int,int]]"},
          returns="tuple[list[tuple[int,int]],list[tuple[int,int]]]")
def _disambiguate_matching(rain_intervals, jump_intervals, result):
    """C01: the output pairs are input pairs, and no storm and no rise occurs twice.  Proved from the contract of
    find_stable_matching: the candidate lists handed to it hold, per storm, exactly the rises listed with it (each
    once), every listed rise ranks every storm listed with it, and the result is read back through the two
    start -> stop tables."""
    requires(dm_requires(rain_intervals, jump_intervals))
    # the candidate pairs by start
    ghost(after="candidate_matches = [", do=lambda: cut(len(candidate_matches) == len(rain_intervals) and forall(
        0, len(rain_intervals), lambda k: candidate_matches[k][0] == rain_intervals[k][0]
        and candidate_matches[k][1] == jump_intervals[k][0])))
    ghost(after="jump_stops = {", do=lambda: cut(forall(0, len(rain_intervals), lambda k:
        rain_intervals[k][0] in storm_stops and storm_stops[rain_intervals[k][0]] == rain_intervals[k][1]
        and jump_intervals[k][0] in jump_stops and jump_stops[jump_intervals[k][0]] == jump_intervals[k][1])))
    ghost(after="duration_differences = {", do=lambda: cut(forall(0, len(rain_intervals), lambda k:
        candidate_matches[k] in duration_differences
        and duration_differences[candidate_matches[k]] == (rain_intervals[k][1] - rain_intervals[k][0])
        - (jump_intervals[k][1] - jump_intervals[k][0] - 1))))
    # loop 0: the two adjacency tables
    loop(0, types={"storms_dict": "dict[int,list[int]]", "jumps_dict": "dict[int,list[int]]", "g_p0": "list[int]", "g_q0": "list[int]"},
         inv=lambda it: forall_int(lambda s: implies(s in storms_dict, forall(0, len(storms_dict[s]), lambda p:
             listed(candidate_matches, s, storms_dict[s][p], it)
             and forall(0, len(storms_dict[s]), lambda p0: implies(p0 != p, storms_dict[s][p0] != storms_dict[s][p])))))
         and forall_int(lambda j: implies(j in jumps_dict, forall(0, len(jumps_dict[j]), lambda p:
             listed(candidate_matches, jumps_dict[j][p], j, it))))
         # where each candidate pair sits in the two tables (ghost positions: lists only grow at the end)
         and len(g_p0) == it and len(g_q0) == it
         and forall(0, it, lambda k: candidate_matches[k][0] in storms_dict and candidate_matches[k][1] in jumps_dict
                    and 0 <= g_p0[k] and g_p0[k] < len(storms_dict[candidate_matches[k][0]])
                    and storms_dict[candidate_matches[k][0]][g_p0[k]] == candidate_matches[k][1]
                    and 0 <= g_q0[k] and g_q0[k] < len(jumps_dict[candidate_matches[k][1]])
                    and jumps_dict[candidate_matches[k][1]][g_q0[k]] == candidate_matches[k][0]))
    ghost(before="for rain_start, jump_start in candidate_matches", let="g_p0", do=lambda: [])
    ghost(before="for rain_start, jump_start in candidate_matches", let="g_q0", do=lambda: [])
    ghost(before="storms_dict[rain_start].append(jump_start)", let="g_p0", do=lambda: g_p0 + [len(storms_dict[rain_start])])
    ghost(before="jumps_dict[jump_start].append(rain_start)", let="g_q0", do=lambda: g_q0 + [len(jumps_dict[jump_start])])
    # loop 1: candidate lists = the adjacency lists, reordered
    ghost(before="for rain_start, jumps in storms_dict.items()", let="g_si", do=lambda: list(storms_dict.items()))
    # g_p1[k]: where candidate pair k's rise sits in its storm's sorted list (sort_position: the place an element of the
    # unsorted list takes in the sorted one)
    ghost(before="for rain_start, jumps in storms_dict.items()", let="g_p1", do=lambda: [-1 for k in range(len(candidate_matches))])
    ghost(after="candidates = sorted(", let="g_p1", do=lambda: [
        (sort_position(candidates, g_p0[k]) if candidate_matches[k][0] == rain_start else g_p1[k])
        for k in range(len(candidate_matches))])
    loop(1, types={"storm_candidates": "dict[int,list[int]]", "g_p1": "list[int]"},
         inv=lambda it: forall(0, it, lambda m: g_si[m][0] in storm_candidates)
         and forall_int(lambda s: implies(s in storm_candidates, forall(0, len(storm_candidates[s]), lambda p:
             listed(candidate_matches, s, storm_candidates[s][p], len(candidate_matches))
             and forall(0, len(storm_candidates[s]), lambda p0: implies(p0 != p, storm_candidates[s][p0] != storm_candidates[s][p]))
             # best candidate last: the duration gap does not increase along the list
             and forall(0, p, lambda p0: abs(duration_differences[(s, storm_candidates[s][p0])])
                        >= abs(duration_differences[(s, storm_candidates[s][p])])))))
         and len(g_p1) == len(candidate_matches)
         and forall(0, len(candidate_matches), lambda k: implies(candidate_matches[k][0] in storm_candidates,
             0 <= g_p1[k] and g_p1[k] < len(storm_candidates[candidate_matches[k][0]])
             and storm_candidates[candidate_matches[k][0]][g_p1[k]] == candidate_matches[k][1])))
    # loop 2: every rise ranks the storms listed with it
    ghost(before="for jump_start, rains in jumps_dict.items()", let="g_ji", do=lambda: list(jumps_dict.items()))
    loop(2, types={"jump_preferences": "dict[int,dict[int,real]]"},
         inv=lambda it: forall(0, it, lambda m: g_ji[m][0] in jump_preferences)
         and forall_int(lambda j: implies(j in jump_preferences and j in jumps_dict, forall(0, len(jumps_dict[j]), lambda p:
             jumps_dict[j][p] in jump_preferences[j]
             and jump_preferences[j][jumps_dict[j][p]] == -abs(j - jumps_dict[j][p])))))
    # every rise of a candidate pair has been given its preferences (key_position names its place in the iteration)
    ghost(before="jump_matches = find_stable_matching(", do=lambda: cut(forall(0, len(candidate_matches), lambda k:
        0 <= key_position(jumps_dict, candidate_matches[k][1]) and key_position(jumps_dict, candidate_matches[k][1]) < len(g_ji)
        and g_ji[key_position(jumps_dict, candidate_matches[k][1])][0] == candidate_matches[k][1])))
    ghost(before="jump_matches = find_stable_matching(", do=lambda: cut(forall(0, len(candidate_matches), lambda k:
        g_ji[key_position(jumps_dict, candidate_matches[k][1])][0] in jump_preferences
        and candidate_matches[k][1] in jump_preferences)))
    # every storm of a candidate pair has been given its list, and the pair sits at g_p1[k] in it
    ghost(before="jump_matches = find_stable_matching(", do=lambda: cut(forall(0, len(candidate_matches), lambda k:
        0 <= key_position(storms_dict, candidate_matches[k][0]) and key_position(storms_dict, candidate_matches[k][0]) < len(g_si)
        and g_si[key_position(storms_dict, candidate_matches[k][0])][0] == candidate_matches[k][0])))
    ghost(before="jump_matches = find_stable_matching(", do=lambda: cut(forall(0, len(candidate_matches), lambda k:
        g_si[key_position(storms_dict, candidate_matches[k][0])][0] in storm_candidates
        and candidate_matches[k][0] in storm_candidates)))
    ghost(before="jump_matches = find_stable_matching(", do=lambda: cut(forall(0, len(candidate_matches), lambda k:
        0 <= g_p1[k] and g_p1[k] < len(storm_candidates[candidate_matches[k][0]])
        and storm_candidates[candidate_matches[k][0]][g_p1[k]] == candidate_matches[k][1])))
    # ... and its rise ranks its storm by minus the start offset
    ghost(before="jump_matches = find_stable_matching(", do=lambda: cut(forall(0, len(candidate_matches), lambda k:
        candidate_matches[k][0] in jump_preferences[candidate_matches[k][1]]
        and jump_preferences[candidate_matches[k][1]][candidate_matches[k][0]]
        == -abs(candidate_matches[k][1] - candidate_matches[k][0]))))
    ghost(before="jump_matches = find_stable_matching(", let="g_cand", do=lambda: storm_candidates)
    # stepping stones for the C02 clause (after the matching is known)
    ghost(after="jump_matches = find_stable_matching(", do=lambda: cut(forall_int(lambda j: implies(
        j in jump_matches, listed(candidate_matches, jump_matches[j], j, len(candidate_matches))))))
    # loop 3: reading the matching back
    ghost(before="for jump_start, rain_start in jump_matches.items()", let="g_mi", do=lambda: list(jump_matches.items()))
    loop(3, types={"unique_rain_intervals": "list[tuple[int,int]]", "unique_jump_intervals": "list[tuple[int,int]]"},
         inv=lambda it: len(unique_rain_intervals) == it and len(unique_jump_intervals) == it
         and forall(0, it, lambda q: unique_rain_intervals[q][0] == g_mi[q][1] and unique_jump_intervals[q][0] == g_mi[q][0]
                    and unique_rain_intervals[q][1] == storm_stops[g_mi[q][1]]
                    and unique_jump_intervals[q][1] == jump_stops[g_mi[q][0]]))
    # every matched rise is read back, with its storm; the gap of an output pair is the tabulated one
    # (key_position names the place of a matched rise among the items of the matching)
    ghost(before="assert len(unique_rain_intervals) == len(unique_jump_intervals)", do=lambda: cut(forall_int(lambda j: implies(
        j in jump_matches, 0 <= key_position(jump_matches, j) and key_position(jump_matches, j) < len(g_mi)
        and g_mi[key_position(jump_matches, j)][0] == j and g_mi[key_position(jump_matches, j)][1] == jump_matches[j]))))
    ghost(before="assert len(unique_rain_intervals) == len(unique_jump_intervals)", do=lambda: cut(forall_int(lambda j: implies(
        j in jump_matches, key_position(jump_matches, j) < len(unique_jump_intervals)
        and unique_jump_intervals[key_position(jump_matches, j)][0] == j
        and unique_rain_intervals[key_position(jump_matches, j)][0] == jump_matches[j]))))
    ghost(before="assert len(unique_rain_intervals) == len(unique_jump_intervals)", do=lambda: cut(forall(
        0, len(unique_rain_intervals), lambda q: unique_jump_intervals[q][0] in jump_matches
        and jump_matches[unique_jump_intervals[q][0]] == unique_rain_intervals[q][0]
        and (unique_rain_intervals[q][0], unique_jump_intervals[q][0]) in duration_differences
        and duration_gap(unique_rain_intervals[q], unique_jump_intervals[q])
        == abs(duration_differences[(unique_rain_intervals[q][0], unique_jump_intervals[q][0])]))))
    ghost(before="assert len(unique_rain_intervals) == len(unique_jump_intervals)", do=lambda: cut(forall(0, len(unique_rain_intervals), lambda q:
        exists(0, len(rain_intervals), lambda k: unique_rain_intervals[q] == rain_intervals[k]
               and unique_jump_intervals[q] == jump_intervals[k]))))
    # C02: the clause follows from the facts above by lemma blocking_translation (proved on its own)
    ghost(before="assert len(unique_rain_intervals) == len(unique_jump_intervals)", do=lambda: blocking_translation(
        rain_intervals, jump_intervals, unique_rain_intervals, unique_jump_intervals, g_p1, g_cand, storm_candidates,
        jump_matches, jump_preferences, duration_differences))
    ensures(len(result[0]) == len(result[1]))
    ensures(forall(0, len(result[0]), lambda q: exists(0, len(rain_intervals), lambda p:
            result[0][q] == rain_intervals[p] and result[1][q] == jump_intervals[p])))
    ensures(forall(0, len(result[0]), lambda q: forall(q + 1, len(result[0]), lambda r:
            result[0][q][0] != result[0][r][0] and result[1][q][0] != result[1][r][0])))
    # C02: no overlapping storm and rise, not matched to each other, such that the storm is unmatched
    # or would obtain a strictly closer duration and the rise is unmatched or a strictly closer start.
    ensures(forall(0, len(rain_intervals), lambda p:
            exists(0, len(result[0]), lambda q: result[0][q] == rain_intervals[p] and result[1][q] == jump_intervals[p])
            or not (forall(0, len(result[0]), lambda q: implies(
                        result[0][q][0] == rain_intervals[p][0],
                        duration_gap(rain_intervals[p], jump_intervals[p]) < duration_gap(result[0][q], result[1][q])))
                    and forall(0, len(result[0]), lambda q: implies(
                        result[1][q][0] == jump_intervals[p][0],
                        abs(jump_intervals[p][0] - rain_intervals[p][0]) < abs(result[1][q][0] - result[0][q][0]))))))


@spec
def duration_gap(ri, ji):
    """|storm duration - rise duration| in time steps: a storm slice [a, b) lasts b - a steps, a
    rise slice [a, b) holds b - a samples and therefore lasts b - a - 1 steps."""
    return abs((ri[1] - ri[0]) - (ji[1] - ji[0] - 1))


@spec
def pair_origin(rain_masks, jump_masks, ri, hi, gj, gs, q):
    """Candidate pair q starts inside rise run gj[q] and inside storm run gs[q]."""
    return (0 <= gj[q] and gj[q] < len(jump_masks) and 0 <= gs[q] and gs[q] < len(rain_masks)
            and 0 <= hi[q][0] and hi[q][0] < len(jump_masks[gj[q]]) and jump_masks[gj[q]][hi[q][0]]
            and 0 <= ri[q][0] and ri[q][0] < len(rain_masks[gs[q]]) and rain_masks[gs[q]][ri[q][0]])


@contract("spowtd.classify:match_storms",
          args={"rain": "array[real]", "head": "array[real]", "rain_threshold": "real", "jump_threshold": "real"},
          returns="tuple[list[tuple[int,int]],list[tuple[int,int]]]", ghost_results={"g_raining": "array[bool]"})
def _match_storms(rain, head, rain_threshold, jump_threshold, result):
    """C01 + C03 at array level: every returned pair is (maximal run of rain > threshold,
    maximal run of increments > threshold) sharing a time step; no storm, no rise twice."""
    requires(len(rain) == len(head))
    ghost(after="is_raining = rain > rain_threshold", let="g_raining", do=lambda: is_raining)
    ensures(len(g_raining) == len(rain) and forall(0, len(rain), lambda k: g_raining[k] == (rain[k] > rain_threshold)))
    ensures(len(result[0]) == len(result[1]))
    ensures(forall(0, len(result[0]), lambda q: cand_pair(
        g_raining, head, jump_threshold, result[0][q], result[1][q])))
    ensures(forall(0, len(result[0]), lambda q: forall(q + 1, len(result[0]), lambda r:
            result[0][q][0] != result[0][r][0] and result[1][q][0] != result[1][r][0])))
    # every storm selected for this rise rains on a step of the rise
    ghost(after="matching_storms = set(", do=lambda: cut(forall_int(lambda s: implies(
        s in matching_storms, exists(0, len(jump_mask), lambda k:
                                     is_raining[k] and jump_mask[k] and storm_indices[k] == s)))))
    ghost(before="rain_interval, head_interval = get_candidate_match_intervals(", do=lambda: cut(
        0 <= storm_index and storm_index < len(rain_masks)
        and exists(0, len(jump_mask), lambda k: is_raining[k] and jump_mask[k] and rain_masks[storm_index][k])))
    loop(0, inv=lambda it: len(storm_indices) == len(is_raining) and forall(0, len(is_raining), lambda k:
         (storm_indices[k] == -1 and forall(0, it, lambda r: not rain_masks[r][k]))
         or (0 <= storm_indices[k] and storm_indices[k] < it and rain_masks[storm_indices[k]][k])))
    # which rise run (g_j) and which storm run (g_s) every candidate pair came from: different pairs differ in one of them
    ghost(before="rain_intervals = []", let="g_j", do=lambda: [])
    ghost(before="rain_intervals = []", let="g_s", do=lambda: [])
    ghost(before="for storm_index in matching_storms", let="g_ms", do=lambda: list(matching_storms))
    ghost(before="rain_intervals.append(rain_interval)", let="g_j", do=lambda: g_j + [loop_it(1)])
    ghost(before="rain_intervals.append(rain_interval)", let="g_s", do=lambda: g_s + [storm_index])
    loop(1, types={"rain_intervals": "list[tuple[int,int]]", "head_intervals": "list[tuple[int,int]]", "g_j": "list[int]", "g_s": "list[int]"},
         inv=lambda it: len(rain_intervals) == len(head_intervals) and forall(0, len(rain_intervals), lambda q:
         cand_pair(is_raining, head, jump_threshold, rain_intervals[q], head_intervals[q]))
         and len(g_j) == len(rain_intervals) and len(g_s) == len(rain_intervals)
         and forall(0, len(g_j), lambda q: pair_origin(rain_masks, jump_masks, rain_intervals, head_intervals, g_j, g_s, q) and g_j[q] < it)
         and forall(0, len(g_j), lambda q2: forall(0, q2, lambda q: g_j[q] != g_j[q2] or g_s[q] != g_s[q2])))
    loop(2, types={"g_j": "list[int]", "g_s": "list[int]"},
         inv=lambda it: len(rain_intervals) == len(head_intervals) and forall(0, len(rain_intervals), lambda q:
         cand_pair(is_raining, head, jump_threshold, rain_intervals[q], head_intervals[q]))
         and len(g_j) == len(rain_intervals) and len(g_s) == len(rain_intervals)
         and forall(0, len(g_j), lambda q: pair_origin(rain_masks, jump_masks, rain_intervals, head_intervals, g_j, g_s, q)
                    and g_j[q] <= loop_it(1)
                    and implies(g_j[q] == loop_it(1), exists(0, it, lambda m: g_ms[m] == g_s[q])))
         and forall(0, len(g_j), lambda q2: forall(0, q2, lambda q: g_j[q] != g_j[q2] or g_s[q] != g_s[q2])))
    # what disambiguate_matching requires: no candidate pair is listed twice
    ghost(before="rain_intervals, head_intervals = disambiguate_matching(", do=lambda: cut(
        forall(0, len(rain_intervals), lambda q2: forall(0, q2, lambda q:
               rain_intervals[q][0] != rain_intervals[q2][0] or head_intervals[q][0] != head_intervals[q2][0]))))


@examples("spowtd.classify:match_storms")
def _ex_match_storms(tier, rng):
    """All series of n <= 5 (quick) / 7 (thorough) steps with rain in {0, 5} mm/h and head
    increments in {0, 1, 9} mm, thresholds 4 and 8: every pattern of storms / rises incl. those
    touching the first or last sample."""
    import itertools
    import numpy as np
    for n in range(0, 6 if tier == "quick" else 8):
        for rains in itertools.product([0.0, 5.0], repeat=n):
            for incs in itertools.product([0.0, 1.0, 9.0], repeat=max(n - 1, 0)):
                head = [100.0]
                for d in incs:
                    head.append(head[-1] + d)
                yield {"rain": np.array(rains, dtype=float), "head": np.array(head[:n], dtype=float),
                       "rain_threshold": 4.0, "jump_threshold": 8.0}


@examples("spowtd.classify:disambiguate_matching")
def _ex_disambiguate(tier, rng):
    """Many-to-many overlap relations between <= 3 storms and <= 3 rises laid out on a line."""
    import itertools
    storms = [(0, 1), (10, 12), (20, 23)]                     # 1, 2, 3 steps
    rises = [(1, 3), (11, 14), (21, 25), (5, 7)]              # 1, 2, 3, 1 steps (2, 3, 4, 2 samples)
    pairs = [(s, r) for s in storms for r in rises]
    for k in range(0, 6 if tier == "quick" else 7):
        for sub in itertools.combinations(pairs, k):
            for perm in ([sub] if tier == "quick" or k > 4 else itertools.permutations(sub)):
                yield {"rain_intervals": [p[0] for p in perm], "jump_intervals": [p[1] for p in perm]}


# --------------------------------------------------------------------------- SQL-executing functions

@spec
def flag_jump(epoch, zeta, thr, i):
    """Sample i ends an increment whose rate exceeds the threshold (the first sample never does)."""
    return i >= 1 and (zeta[i] - zeta[i - 1]) / ((epoch[i] - epoch[i - 1]) / 3600) > thr


@spec
def flag_settled(epoch, zeta, rain, thr, i):
    """Some rainy step r <= i exists and no rain-free sample since r ends a too-fast increment."""
    return exists(0, i + 1, lambda r: rain[r] and forall(r + 1, i + 1, lambda q:
                  not rain[q] and not flag_jump(epoch, zeta, thr, q)))


@spec
def run_facts(bv, idx):
    """idx[0] .. idx[-1] is a maximal run of True values of bv."""
    return (len(idx) >= 1 and 0 <= idx[0] and idx[0] <= idx[len(idx) - 1] and idx[len(idx) - 1] < len(bv)
            and forall(idx[0], idx[len(idx) - 1] + 1, lambda q: bv[q])
            and (idx[0] == 0 or not bv[idx[0] - 1])
            and (idx[len(idx) - 1] == len(bv) - 1 or not bv[idx[len(idx) - 1] + 1]))


@spec
def is_inter(epoch, zeta, rain, thr, q):
    return flag_settled(epoch, zeta, rain, thr, q) and not rain[q]


@spec
def interstorm_row(row, epoch, inter, a, b):
    """row is ('interstorm' interval from epoch[a] through epoch[b]) and [a, b] is a maximal run
    of at least two samples of the interstorm flag."""
    return (row[1] == 0 and 0 <= a and a < b and b < len(epoch)
            and row[0] == epoch[a] and row[2] == epoch[b]
            and forall(a, b + 1, lambda q: inter[q])
            and (a == 0 or not inter[a - 1])
            and (b == len(epoch) - 1 or not inter[b + 1]))


@contract("spowtd.classify:classify_interstorms", db=True,
          args={"cursor": "cursor", "data_interval": "int", "rising_jump_threshold_mm_h": "real"}, returns="none",
          ghost_results={"g_epoch": "array[int]", "g_zeta": "array[real]", "g_rain": "array[bool]",
                         "g_a": "list[int]", "g_b": "list[int]", "g_inter": "array[bool]"})
def _classify_interstorms(cursor, data_interval, rising_jump_threshold_mm_h):
    """C04 at statement level: one flags row per sample of the stretch, (epoch, rise, unexplained
    rise, interstorm) by the property's definitions; every interstorm row inserted is (first epoch,
    last epoch) of a maximal run of >= 2 interstorm samples.  C01: no exception.  C20: writes only
    before the commit, nothing committed here."""
    requires(not db_sealed())
    requires(rising_jump_threshold_mm_h > 0)
    modifies("__db__")
    ghost(after="epoch, zeta_mm, is_raining = ", let="g_epoch", do=lambda: epoch)
    ghost(after="epoch, zeta_mm, is_raining = ", let="g_zeta", do=lambda: zeta_mm)
    ghost(after="is_raining = is_raining.astype(bool)", let="g_rain", do=lambda: is_raining)
    ensures(not db_sealed())
    ensures(db_rows("storm") == db_rows_before("storm"))
    ensures(len(g_epoch) >= 1 and len(g_zeta) == len(g_epoch) and len(g_rain) == len(g_epoch))
    ensures(len(db_rows("grid_time_flags")) == len(db_rows_before("grid_time_flags")) + len(g_epoch))
    ensures(forall(0, len(g_epoch), lambda i:
            db_rows("grid_time_flags")[len(db_rows_before("grid_time_flags")) + i]
            == (g_epoch[i],
                1 if flag_jump(g_epoch, g_zeta, rising_jump_threshold_mm_h, i) else 0,
                0 if flag_settled(g_epoch, g_zeta, g_rain, rising_jump_threshold_mm_h, i) else 1,
                1 if (flag_settled(g_epoch, g_zeta, g_rain, rising_jump_threshold_mm_h, i) and not g_rain[i]) else 0)))
    ghost(after="is_jump = ", do=lambda: cut(len(is_jump) == len(epoch) and forall(0, len(epoch), lambda q:
          is_jump[q] == flag_jump(epoch, zeta_mm, rising_jump_threshold_mm_h, q))))
    ghost(after="is_interstorm = ", do=lambda: cut(len(is_interstorm) == len(epoch) and forall(0, len(epoch), lambda q:
          is_interstorm[q] == is_inter(epoch, zeta_mm, is_raining, rising_jump_threshold_mm_h, q))))
    ghost(after="series_indices = [np.nonzero(mask)[0] for mask in masks]", do=lambda: cut(
        forall(0, len(series_indices), lambda r:
               len(series_indices[r]) >= 1 and masks[r][series_indices[r][0]]
               and masks[r][series_indices[r][len(series_indices[r]) - 1]]
               and forall(0, len(epoch), lambda k: implies(
                   masks[r][k], series_indices[r][0] <= k and k <= series_indices[r][len(series_indices[r]) - 1])))))
    ghost(after="series_indices = [np.nonzero(mask)[0] for mask in masks]", do=lambda: cut(
        forall(0, len(series_indices), lambda r: forall(0, len(epoch), lambda k: implies(
            series_indices[r][0] <= k and k <= series_indices[r][len(series_indices[r]) - 1], masks[r][k]),
            trigger=lambda k: (series_indices[r][0], interval_mask[k])))))
    ghost(after="series_indices = [np.nonzero(mask)[0] for mask in masks]", do=lambda: cut(
        forall(0, len(series_indices), lambda r: run_facts(interval_mask, series_indices[r]))))
    ghost(before="cursor.execute(", do=lambda: cut(
        0 <= indices[0] and indices[0] < indices[len(indices) - 1] and indices[len(indices) - 1] < len(epoch)
        and forall(indices[0], indices[len(indices) - 1] + 1, lambda q: interval_mask[q])
        and (indices[0] == 0 or not interval_mask[indices[0] - 1])
        and (indices[len(indices) - 1] == len(epoch) - 1 or not interval_mask[indices[len(indices) - 1] + 1])))
    # interstorm rows: the k-th row inserted here is (epoch[g_a[k]], 'interstorm', epoch[g_b[k]]) and
    # [g_a[k], g_b[k]] is a maximal run of at least two interstorm samples
    ghost(after="masks = get_true_interval_masks(", let="g_a", do=lambda: [])
    ghost(after="masks = get_true_interval_masks(", let="g_b", do=lambda: [])
    ghost(before="cursor.execute(", let="g_a", do=lambda: g_a + [indices[0]])
    ghost(before="cursor.execute(", let="g_b", do=lambda: g_b + [indices[len(indices) - 1]])
    ensures(len(g_a) == len(g_b) and len(db_rows("zeta_interval")) == len(db_rows_before("zeta_interval")) + len(g_a))
    ensures(forall(0, len(g_a), lambda k: interstorm_row(
        db_rows("zeta_interval")[len(db_rows_before("zeta_interval")) + k], g_epoch, g_inter, g_a[k], g_b[k])))
    # ... where the interstorm flag is the property's: rain-free, some rain earlier, and no too-fast
    # increment ending at a rain-free sample since the last rainy step
    ghost(after="is_interstorm = ", let="g_inter", do=lambda: is_interstorm)
    ensures(len(g_inter) == len(g_epoch) and forall(0, len(g_epoch), lambda q:
            g_inter[q] == is_inter(g_epoch, g_zeta, g_rain, rising_jump_threshold_mm_h, q)))
    loop(0, types={"g_a": "list[int]", "g_b": "list[int]"}, inv=lambda it: not db_sealed()
         and db_rows("storm") == db_rows_before("storm")
         and db_rows("grid_time_flags") == g_flags
         and len(g_a) == len(g_b) and len(db_rows("zeta_interval")) == len(db_rows_before("zeta_interval")) + len(g_a)
         and forall(0, len(g_a), lambda k: interstorm_row(
             db_rows("zeta_interval")[len(db_rows_before("zeta_interval")) + k], epoch, interval_mask, g_a[k], g_b[k])))
    ghost(after="masks = get_true_interval_masks(", let="g_flags", do=lambda: db_rows("grid_time_flags"))


@contract("spowtd.classify:match_all_storms", db=True,
          args={"cursor": "cursor", "data_interval": "int", "storm_rain_threshold_mm_h": "real",
                "rising_jump_threshold_mm_h": "real"}, returns="none",
          ghost_results={"g_epoch": "array[int]", "g_zeta": "array[real]", "g_rain": "array[real]", "g_step_h": "real",
                         "g_ri": "list[tuple[int,int]]", "g_hi": "list[tuple[int,int]]", "g_raining": "array[bool]"})
def _match_all_storms(cursor, data_interval, storm_rain_threshold_mm_h, rising_jump_threshold_mm_h):
    """C03 at statement level: the k-th storm row inserted is (epoch[a], epoch[b-1] + step) for a
    maximal run [a, b) of rain above the threshold, the k-th rise row (epoch[a'], 'storm',
    epoch[b'-1]) for a maximal run of increments above threshold x step, and the pairing row joins
    them; the pairs are those of match_storms (C01: one-to-one, sharing a time step).  C01: no
    exception.  C20: writes only before the commit."""
    requires(not db_sealed())
    requires(storm_rain_threshold_mm_h > 0 and rising_jump_threshold_mm_h > 0)
    # storms recorded so far belong to other gap-free stretches (label_of = data_interval of an epoch)
    requires(forall(0, len(db_rows("storm")), lambda k: uf_int("label_of", db_rows("storm")[k][0]) != data_interval))
    modifies("__db__")
    ghost(after="epoch, zeta_mm, rainfall_intensity_mm_h = ", let="g_epoch", do=lambda: epoch)
    ghost(after="epoch, zeta_mm, rainfall_intensity_mm_h = ", let="g_zeta", do=lambda: zeta_mm)
    ghost(after="epoch, zeta_mm, rainfall_intensity_mm_h = ", let="g_rain", do=lambda: rainfall_intensity_mm_h)
    ghost(after="time_step_h, = ", let="g_step_h", do=lambda: time_step_h)
    ghost(before="assert not already_seen", do=lambda: cut(
        0 <= rain_start and rain_start < len(epoch) and uf_int("label_of", storm_start_epoch) == data_interval
        and forall(0, i, lambda k: rain_intervals[k][0] != rain_start)))
    ghost(before="assert not already_seen", do=lambda: cut(forall(0, len(db_rows("storm")), lambda k:
          db_rows("storm")[k][0] != storm_start_epoch)))
    ghost(after="rain_intervals, jump_intervals = match_storms(", let="g_ri", do=lambda: rain_intervals)
    ghost(after="rain_intervals, jump_intervals = match_storms(", let="g_hi", do=lambda: jump_intervals)
    ensures(not db_sealed())
    ensures(len(g_ri) == len(g_hi))
    ensures(len(g_raining) == len(g_rain)
            and forall(0, len(g_rain), lambda k: g_raining[k] == (g_rain[k] > storm_rain_threshold_mm_h)))
    ensures(forall(0, len(g_ri), lambda q: cand_pair(g_raining, g_zeta,
                                                      rising_jump_threshold_mm_h * g_step_h, g_ri[q], g_hi[q])))
    ensures(len(db_rows("storm")) == len(db_rows_before("storm")) + len(g_ri))
    ensures(forall(0, len(db_rows_before("storm")), lambda k: db_rows("storm")[k] == db_rows_before("storm")[k]))
    ensures(forall(len(db_rows_before("storm")), len(db_rows("storm")), lambda k:
            uf_int("label_of", db_rows("storm")[k][0]) == data_interval))
    ensures(len(db_rows("zeta_interval")) == len(db_rows_before("zeta_interval")) + len(g_ri))
    ensures(len(db_rows("zeta_interval_storm")) == len(db_rows_before("zeta_interval_storm")) + len(g_ri))
    ensures(forall(len(db_rows_before("storm")), len(db_rows("storm")), lambda K:
            db_rows("storm")[K] == (g_epoch[g_ri[K - len(db_rows_before("storm"))][0]],
                                    g_epoch[g_ri[K - len(db_rows_before("storm"))][1] - 1] + (g_epoch[1] - g_epoch[0]))))
    ensures(forall(len(db_rows_before("zeta_interval")), len(db_rows("zeta_interval")), lambda K:
            db_rows("zeta_interval")[K] == (g_epoch[g_hi[K - len(db_rows_before("zeta_interval"))][0]], 1,
                                            g_epoch[g_hi[K - len(db_rows_before("zeta_interval"))][1] - 1])))
    ensures(forall(len(db_rows_before("zeta_interval_storm")), len(db_rows("zeta_interval_storm")), lambda K:
            db_rows("zeta_interval_storm")[K]
            == (g_epoch[g_hi[K - len(db_rows_before("zeta_interval_storm"))][0]],
                g_epoch[g_ri[K - len(db_rows_before("zeta_interval_storm"))][0]])))
    loop(0, inv=lambda it: not db_sealed()
         and len(db_rows("storm")) == len(db_rows_before("storm")) + it
         and forall(0, len(db_rows_before("storm")), lambda k: db_rows("storm")[k] == db_rows_before("storm")[k])
         and len(db_rows("zeta_interval")) == len(db_rows_before("zeta_interval")) + it
         and len(db_rows("zeta_interval_storm")) == len(db_rows_before("zeta_interval_storm")) + it
         and forall(len(db_rows_before("storm")), len(db_rows("storm")), lambda K:
            db_rows("storm")[K] == (epoch[rain_intervals[K - len(db_rows_before("storm"))][0]],
                                    epoch[rain_intervals[K - len(db_rows_before("storm"))][1] - 1] + (epoch[1] - epoch[0])))
         and forall(len(db_rows_before("zeta_interval")), len(db_rows("zeta_interval")), lambda K:
            db_rows("zeta_interval")[K] == (epoch[jump_intervals[K - len(db_rows_before("zeta_interval"))][0]], 1,
                                            epoch[jump_intervals[K - len(db_rows_before("zeta_interval"))][1] - 1]))
         and forall(len(db_rows_before("zeta_interval_storm")), len(db_rows("zeta_interval_storm")), lambda K:
            db_rows("zeta_interval_storm")[K]
            == (epoch[jump_intervals[K - len(db_rows_before("zeta_interval_storm"))][0]],
                epoch[rain_intervals[K - len(db_rows_before("zeta_interval_storm"))][0]])))


@contract("spowtd.classify:populate_zeta_interval", db=True,
          args={"cursor": "cursor", "data_interval": "int", "storm_rain_threshold_mm_h": "real",
                "rising_jump_threshold_mm_h": "real"}, returns="none")
def _populate_zeta_interval(cursor, data_interval, storm_rain_threshold_mm_h, rising_jump_threshold_mm_h):
    requires(not db_sealed())
    requires(storm_rain_threshold_mm_h > 0 and rising_jump_threshold_mm_h > 0)
    requires(forall(0, len(db_rows("storm")), lambda k: uf_int("label_of", db_rows("storm")[k][0]) != data_interval))
    modifies("__db__")
    ensures(not db_sealed())
    ensures(len(db_rows("storm")) >= len(db_rows_before("storm")))
    ensures(forall(0, len(db_rows_before("storm")), lambda k: db_rows("storm")[k] == db_rows_before("storm")[k]))
    ensures(forall(len(db_rows_before("storm")), len(db_rows("storm")), lambda k:
            uf_int("label_of", db_rows("storm")[k][0]) == data_interval))


@contract("spowtd.classify:classify_intervals", db=True,
          args={"connection": "connection", "storm_rain_threshold_mm_h": "real", "rising_jump_threshold_mm_h": "real"},
          returns="none")
def _classify_intervals(connection, storm_rain_threshold_mm_h, rising_jump_threshold_mm_h):
    """C01 / C20: the step never writes after its commit, commits exactly once at the very end, and
    raises nothing but the explicit refusal of a dataset without any gridded water-level sample
    (datasets with one never take that path: bounded stand-in)."""
    requires(not db_sealed())
    requires(storm_rain_threshold_mm_h > 0 and rising_jump_threshold_mm_h > 0)
    # first classification of this dataset: the thresholds singleton makes any later run fail at its
    # first statement (SQLite PRIMARY KEY, assumed), so no storm has been recorded yet
    requires(len(db_rows("storm")) == 0)
    may_raise(ValueError)
    modifies("__db__")
    ensures(db_sealed())
    loop(0, inv=lambda it: not db_sealed() and forall(0, len(db_rows("storm")), lambda k: forall(it, len(data_intervals), lambda j:
         uf_int("label_of", db_rows("storm")[k][0]) != data_intervals[j])))


# --------------------------------------------------------------------------- C02, second sentence: storm-optimality

@spec
def mu_wellformed(old_cand, mu_pos, mu_inv):
    """mu is a matching given by, for every storm, the position of its partner in the storm's list
    (-1 = unmatched) and, for every matched rise, its storm."""
    return (forall_int(lambda s: implies(s in old_cand, s in mu_pos and -1 <= mu_pos[s] and mu_pos[s] < len(old_cand[s])))
            and forall_int(lambda s: implies(s in old_cand and mu_pos[s] >= 0,
                                             old_cand[s][mu_pos[s]] in mu_inv and mu_inv[old_cand[s][mu_pos[s]]] == s))
            and forall_int(lambda j: implies(j in mu_inv, mu_inv[j] in old_cand and mu_pos[mu_inv[j]] >= 0
                                             and old_cand[mu_inv[j]][mu_pos[mu_inv[j]]] == j)))


@spec
def mu_stable(old_cand, prefs, mu_pos, mu_inv):
    """No candidate pair blocks mu (storm side: a later list position is strictly better)."""
    return forall_int(lambda s, k: implies(
        s in old_cand and 0 <= k and k < len(old_cand[s]) and k != mu_pos[s],
        not (k > mu_pos[s] and (old_cand[s][k] not in mu_inv
                                or prefs[old_cand[s][k]][s] > prefs[old_cand[s][k]][mu_inv[old_cand[s][k]]]))))


@contract("spowtd.classify:find_stable_matching#terminates",
          args={"storm_candidates": "dict[int,list[int]]", "jump_preferences": "dict[int,dict[int,real]]"},
          returns="dict[int,int]")
def _find_stable_matching_terminates(storm_candidates, jump_preferences, result):
    """C01 ("classification finishes"): the deferred-acceptance loop terminates.  Measure: the number of candidates
    left over all storms (ghost: the list lengths in the iteration order of the dictionary as it was handed in, and
    their partial sums); every iteration pops exactly one candidate (lemma point_decrement_sum) and the measure is
    never negative (lemma prefix_sums_monotone)."""
    requires(forall_int(lambda s, k: implies(
        s in storm_candidates and 0 <= k and k < len(storm_candidates[s]),
        storm_candidates[s][k] in jump_preferences and s in jump_preferences[storm_candidates[s][k]])))
    modifies("storm_candidates")
    ghost(before="matches = dict()", let="g_keys", do=lambda: list(storm_candidates.keys()))
    ghost(before="matches = dict()", let="g_cnt", do=lambda: [len(c) for c in list(storm_candidates.values())])
    ghost(before="matches = dict()", let="g_ps", do=lambda: prefix_sums(g_cnt))
    ghost(before="matches = dict()", do=lambda: prefix_sums_monotone(g_cnt, g_ps))
    ghost(before="matches = dict()", let="g_m", do=lambda: 0 if len(g_cnt) == 0 else g_ps[len(g_cnt) - 1])
    ghost(after="jump = storm_candidates[storm].pop()", let="g_kp", do=lambda: key_position(old(storm_candidates), storm))
    ghost(after="jump = storm_candidates[storm].pop()", let="g_cnt2",
          do=lambda: [g_cnt[i] - (1 if i == g_kp else 0) for i in range(len(g_cnt))])
    ghost(after="jump = storm_candidates[storm].pop()", let="g_ps2", do=lambda: prefix_sums(g_cnt2))
    ghost(after="jump = storm_candidates[storm].pop()", do=lambda: point_decrement_sum(g_cnt, g_ps, g_cnt2, g_ps2, g_kp))
    ghost(after="jump = storm_candidates[storm].pop()", do=lambda: prefix_sums_monotone(g_cnt2, g_ps2))
    ghost(after="jump = storm_candidates[storm].pop()", let="g_cnt", do=lambda: g_cnt2)
    ghost(after="jump = storm_candidates[storm].pop()", let="g_ps", do=lambda: g_ps2)
    ghost(after="jump = storm_candidates[storm].pop()", let="g_m", do=lambda: g_m - 1)
    loop(0, types={"matches": "dict[int,int]", "g_cnt": "array[int]", "g_ps": "array[int]", "g_m": "int"},
         decreases=lambda: g_m, inv=lambda:
         forall_int(lambda s: (s in storm_candidates) == (s in old(storm_candidates)))
         and forall_int(lambda s: implies(s in matchable_storms, s in storm_candidates and len(storm_candidates[s]) > 0))
         and forall_int(lambda s, k: implies(
             s in storm_candidates,
             len(storm_candidates[s]) <= len(old(storm_candidates)[s])
             and implies(0 <= k and k < len(storm_candidates[s]),
                         storm_candidates[s][k] == old(storm_candidates)[s][k])))
         # a matched storm is not matchable and is matched to the last rise it proposed to (needed by the assert)
         and forall_int(lambda j: implies(
             j in matches,
             matches[j] in storm_candidates and matches[j] not in matchable_storms
             and len(storm_candidates[matches[j]]) < len(old(storm_candidates)[matches[j]])
             and old(storm_candidates)[matches[j]][len(storm_candidates[matches[j]])] == j))
         and len(g_cnt) == len(g_keys) and is_prefix_sums(g_cnt, g_ps)
         and forall(0, len(g_keys), lambda i: g_cnt[i] == len(storm_candidates[g_keys[i]]))
         and forall(0, len(g_cnt), lambda i: g_ps[i] >= 0)
         and g_m == (0 if len(g_cnt) == 0 else g_ps[len(g_cnt) - 1]))


@contract("spowtd.classify:find_stable_matching#optimal",
          args={"storm_candidates": "dict[int,list[int]]", "jump_preferences": "dict[int,dict[int,real]]"},
          returns="dict[int,int]", logical={"mu_pos": "dict[int,int]", "mu_inv": "dict[int,int]"})
def _find_stable_matching_optimal(storm_candidates, jump_preferences, result):
    """C02, second sentence: when no rise ranks two storms equally, every storm gets a rise at least as
    good (by its own list) as in ANY stable matching mu — so the result is the storm-optimal stable
    matching, hence unique and independent of the order in which set.pop() serves the storms.
    mu_pos / mu_inv are logical variables: an arbitrary well-formed stable matching."""
    requires(forall_int(lambda s, k, k2: implies(
        s in storm_candidates and 0 <= k and k < k2 and k2 < len(storm_candidates[s]),
        storm_candidates[s][k] != storm_candidates[s][k2])))
    requires(forall_int(lambda s, k: implies(
        s in storm_candidates and 0 <= k and k < len(storm_candidates[s]),
        storm_candidates[s][k] in jump_preferences and s in jump_preferences[storm_candidates[s][k]])))
    # strict preferences of the rises (no ties)
    requires(forall_int(lambda j, s, s2: implies(
        j in jump_preferences and s in jump_preferences[j] and s2 in jump_preferences[j] and s != s2,
        jump_preferences[j][s] != jump_preferences[j][s2])))
    requires(mu_wellformed(storm_candidates, mu_pos, mu_inv))
    requires(mu_stable(storm_candidates, jump_preferences, mu_pos, mu_inv))
    modifies("storm_candidates")
    ensures(forall_int(lambda s: implies(
        s in old(storm_candidates),
        implies(gs_matched(storm_candidates, old(storm_candidates), result, s), mu_pos[s] <= len(storm_candidates[s]))
        and implies(not gs_matched(storm_candidates, old(storm_candidates), result, s), mu_pos[s] == -1))))
    loop(0, types={"matches": "dict[int,int]"}, inv=lambda:
         forall_int(lambda s: (s in storm_candidates) == (s in old(storm_candidates)))
         and forall_int(lambda s, k: implies(
             s in storm_candidates,
             len(storm_candidates[s]) <= len(old(storm_candidates)[s])
             and implies(0 <= k and k < len(storm_candidates[s]),
                         storm_candidates[s][k] == old(storm_candidates)[s][k])))
         and forall_int(lambda s: implies(s in matchable_storms, s in storm_candidates and len(storm_candidates[s]) > 0))
         and forall_int(lambda j: implies(
             j in matches,
             matches[j] in storm_candidates and matches[j] not in matchable_storms
             and len(storm_candidates[matches[j]]) < len(old(storm_candidates)[matches[j]])
             and old(storm_candidates)[matches[j]][len(storm_candidates[matches[j]])] == j))
         and forall_int(lambda s, k: implies(
             s in storm_candidates and len(storm_candidates[s]) <= k and k < len(old(storm_candidates)[s]),
             old(storm_candidates)[s][k] in matches
             and jump_preferences[old(storm_candidates)[s][k]][matches[old(storm_candidates)[s][k]]]
             >= jump_preferences[old(storm_candidates)[s][k]][s]))
         and forall_int(lambda s: implies(
             s in storm_candidates,
             s in matchable_storms or len(storm_candidates[s]) == 0
             or gs_matched(storm_candidates, old(storm_candidates), matches, s)))
         # optimality invariant: no storm has been rejected by (or displaced from) its mu-partner
         and forall_int(lambda s, k: implies(
             s in storm_candidates and len(storm_candidates[s]) <= k and k < len(old(storm_candidates)[s])
             and not (old(storm_candidates)[s][k] in matches and matches[old(storm_candidates)[s][k]] == s),
             mu_pos[s] != k)))


# --------------------------------------------------------------------------- C07: independence of the time origin

@contract("spowtd.classify:classify_interstorms#uf_rounding", db=True, float_mode="uf",
          args={"cursor": "cursor", "data_interval": "int", "rising_jump_threshold_mm_h": "real"}, returns="none",
          ghost_results={"g_epoch": "array[int]", "g_zeta": "array[real]", "g_rain": "array[bool]"})
def _classify_interstorms_uf(cursor, data_interval, rising_jump_threshold_mm_h):
    """C07, rounding half: with every floating-point operation read as an UNINTERPRETED deterministic
    function of its operands (so nothing is assumed about rounding), the rise flag of sample i is
    exactly flag_jump evaluated the same way: a function of the integer difference
    epoch[i] - epoch[i-1] (exact), the two levels and the threshold."""
    requires(not db_sealed())
    requires(rising_jump_threshold_mm_h > 0)
    modifies("__db__")
    ghost(after="epoch, zeta_mm, is_raining = ", let="g_epoch", do=lambda: epoch)
    ghost(after="epoch, zeta_mm, is_raining = ", let="g_zeta", do=lambda: zeta_mm)
    ghost(after="is_raining = is_raining.astype(bool)", let="g_rain", do=lambda: is_raining)
    ensures(len(db_rows("grid_time_flags")) == len(db_rows_before("grid_time_flags")) + len(g_epoch))
    ensures(forall(0, len(g_epoch), lambda i:
            db_rows("grid_time_flags")[len(db_rows_before("grid_time_flags")) + i][0] == g_epoch[i]
            and db_rows("grid_time_flags")[len(db_rows_before("grid_time_flags")) + i][1]
            == (1 if flag_jump(g_epoch, g_zeta, rising_jump_threshold_mm_h, i) else 0)))
    loop(0, inv=lambda it: not db_sealed() and db_rows("grid_time_flags") == g_flags)
    ghost(after="masks = get_true_interval_masks(", let="g_flags", do=lambda: db_rows("grid_time_flags"))


@lemma(args={"epoch": "array[int]", "epoch2": "array[int]", "zeta": "array[real]", "rain": "array[bool]", "thr": "real", "c": "int"},
       float_mode="uf")
def origin_independence(epoch, epoch2, zeta, rain, thr, c):
    """C07 over the contracts of classify_interstorms: shifting every epoch by the same integer c
    leaves the rise, unexplained-rise and interstorm flags unchanged — proved with uninterpreted
    rounding, i.e. for whatever the floating-point unit does, because the absolute epoch reaches
    floating-point operations only through exact integer differences."""
    requires(len(epoch2) == len(epoch) and forall(0, len(epoch), lambda i: epoch2[i] == epoch[i] + c))
    ensures(forall(0, len(epoch), lambda i: flag_jump(epoch2, zeta, thr, i) == flag_jump(epoch, zeta, thr, i)))
    ensures(forall(0, len(epoch), lambda i: flag_settled(epoch2, zeta, rain, thr, i) == flag_settled(epoch, zeta, rain, thr, i)))
    ensures(forall(0, len(epoch), lambda i: is_inter(epoch2, zeta, rain, thr, i) == is_inter(epoch, zeta, rain, thr, i)))
    cut(forall(0, len(epoch), lambda i: flag_jump(epoch2, zeta, thr, i) == flag_jump(epoch, zeta, thr, i)))


@native_ghosts("spowtd.classify:match_storms")
def _ng_match_storms(rain, head, rain_threshold, jump_threshold, result=None):
    import numpy as np
    return {"g_raining": np.asarray(rain) > rain_threshold}
