"""Sidecar contracts for spowtd/classify.py (parsed by pyvc; importable for the native reading)."""
from pyvc.spec import *   # noqa


@spec
def settled(jump, rain, k):
    """Some rainy step r <= k exists and nothing since r is rainy or a jump."""
    return exists(0, k + 1, lambda r: rain[r] and forall(r + 1, k + 1, lambda q: not rain[q] and not jump[q]))


@contract("spowtd.classify:assert_equal", args={"a": "int", "b": "int", "message": "none"}, returns="none")
def _assert_equal(a, b, message):
    requires(a == b)


@contract("spowtd.classify:get_mystery_jump_mask",
          args={"is_jump": "array[bool]", "is_raining": "array[bool]"}, returns="array[bool]")
def _get_mystery_jump_mask(is_jump, is_raining, result):
    requires(len(is_jump) == len(is_raining))
    ensures(len(result) == len(is_jump))
    ensures(forall(0, len(result), lambda i: result[i] == (not settled(is_jump, is_raining, i))))
    loop(0, inv=lambda it: len(mystery_jump_mask) == len(is_jump)
         and in_mystery == (not settled(is_jump, is_raining, it - 1))
         and forall(0, it, lambda k: mystery_jump_mask[k] == (not settled(is_jump, is_raining, k))))


@spec
def is_maximal_run(bv, mask):
    """mask is the indicator of one maximal run of True values of bv (universal reading)."""
    return (len(mask) == len(bv)
            and exists(0, len(bv), lambda k: mask[k])
            and forall(0, len(bv), lambda k: implies(mask[k], bv[k]))
            and forall(0, len(bv), lambda i: forall(i, len(bv), lambda j: implies(
                mask[i] and mask[j], forall(i, j, lambda l: mask[l]))))
            and forall(1, len(bv), lambda k: implies(mask[k] and bv[k - 1], mask[k - 1]))
            and forall(0, len(bv) - 1, lambda k: implies(mask[k] and bv[k + 1], mask[k + 1])))


@contract("spowtd.classify:get_true_interval_masks",
          args={"boolean_vector": "array[bool]"}, returns="list[array[bool]]")
def _get_true_interval_masks(boolean_vector, result):
    """C01/C03/C04: the result is, in order, the indicator vectors of all maximal True runs."""
    ghost(after="indices = np.cumsum(",
          do=lambda: run_counter_basic(boolean_vector, indices) and run_counter_separation(boolean_vector, indices))
    ensures(forall(0, len(result), lambda r: is_maximal_run(boolean_vector, result[r])))
    # ordered and pairwise disjoint
    ensures(forall(0, len(result), lambda r: forall(r + 1, len(result), lambda s: forall(
        0, len(boolean_vector), lambda i: forall(0, len(boolean_vector), lambda j: implies(
            result[r][i] and result[s][j], i < j))))))
    # every True element is covered
    ensures(forall(0, len(boolean_vector), lambda k: implies(
        boolean_vector[k], exists(0, len(result), lambda r: result[r][k]))))


# --------------------------------------------------------------------------- deferred acceptance

@spec
def gs_matched(cand, old_cand, matches, s):
    """Storm s currently holds a rise: the last candidate it proposed to (lists shrink from the end)."""
    return (len(cand[s]) < len(old_cand[s])
            and old_cand[s][len(cand[s])] in matches
            and matches[old_cand[s][len(cand[s])]] == s)


@contract("spowtd.classify:find_stable_matching",
          args={"storm_candidates": "dict[int,list[int]]", "jump_preferences": "dict[int,dict[int,real]]"},
          returns="dict[int,int]")
def _find_stable_matching(storm_candidates, jump_preferences, result):
    """C01: one-to-one, candidate pairs only.  C02: no blocking pair (storm side by list
    position = its duration preference, rise side by preference value)."""
    # candidates of one storm are distinct, and every listed rise ranks that storm
    requires(forall_int(lambda s, k, k2: implies(
        s in storm_candidates and 0 <= k and k < k2 and k2 < len(storm_candidates[s]),
        storm_candidates[s][k] != storm_candidates[s][k2])))
    requires(forall_int(lambda s, k: implies(
        s in storm_candidates and 0 <= k and k < len(storm_candidates[s]),
        storm_candidates[s][k] in jump_preferences and s in jump_preferences[storm_candidates[s][k]])))
    modifies("storm_candidates")
    # frame: lists only shrink from the end
    ensures(forall_int(lambda s: (s in storm_candidates) == (s in old(storm_candidates))))
    ensures(forall_int(lambda s, k: implies(
        s in storm_candidates,
        len(storm_candidates[s]) <= len(old(storm_candidates)[s])
        and implies(0 <= k and k < len(storm_candidates[s]), storm_candidates[s][k] == old(storm_candidates)[s][k]))))
    # every recorded pair is a candidate pair; the rise is the last one its storm proposed to
    ensures(forall_int(lambda j: implies(
        j in result,
        result[j] in old(storm_candidates)
        and len(storm_candidates[result[j]]) < len(old(storm_candidates)[result[j]])
        and old(storm_candidates)[result[j]][len(storm_candidates[result[j]])] == j)))
    # one-to-one
    ensures(forall_int(lambda j1, j2: implies(j1 in result and j2 in result and j1 != j2, result[j1] != result[j2])))
    # stability: no candidate pair (s, j = old[s][k]) blocks the result
    ensures(forall_int(lambda s, k: implies(
        s in old(storm_candidates) and 0 <= k and k < len(old(storm_candidates)[s]),
        not (not (old(storm_candidates)[s][k] in result and result[old(storm_candidates)[s][k]] == s)
             and (not gs_matched(storm_candidates, old(storm_candidates), result, s) or k > len(storm_candidates[s]))
             and (old(storm_candidates)[s][k] not in result
                  or jump_preferences[old(storm_candidates)[s][k]][s]
                  > jump_preferences[old(storm_candidates)[s][k]][result[old(storm_candidates)[s][k]]])))))
    loop(0, types={"matches": "dict[int,int]"}, inv=lambda:
         forall_int(lambda s: (s in storm_candidates) == (s in old(storm_candidates)))
         and forall_int(lambda s, k: implies(
             s in storm_candidates,
             len(storm_candidates[s]) <= len(old(storm_candidates)[s])
             and implies(0 <= k and k < len(storm_candidates[s]),
                         storm_candidates[s][k] == old(storm_candidates)[s][k])))
         # I1: matchable storms have candidates left
         and forall_int(lambda s: implies(s in matchable_storms, s in storm_candidates and len(storm_candidates[s]) > 0))
         # I2 / I4: a matched storm is not matchable and is matched to the last rise it proposed to
         and forall_int(lambda j: implies(
             j in matches,
             matches[j] in storm_candidates and matches[j] not in matchable_storms
             and len(storm_candidates[matches[j]]) < len(old(storm_candidates)[matches[j]])
             and old(storm_candidates)[matches[j]][len(storm_candidates[matches[j]])] == j))
         # I3: every rise a storm has proposed to is matched at least as well
         and forall_int(lambda s, k: implies(
             s in storm_candidates and len(storm_candidates[s]) <= k and k < len(old(storm_candidates)[s]),
             old(storm_candidates)[s][k] in matches
             and jump_preferences[old(storm_candidates)[s][k]][matches[old(storm_candidates)[s][k]]]
             >= jump_preferences[old(storm_candidates)[s][k]][s]))
         # I5: every storm is matchable, exhausted, or matched
         and forall_int(lambda s: implies(
             s in storm_candidates,
             s in matchable_storms or len(storm_candidates[s]) == 0
             or gs_matched(storm_candidates, old(storm_candidates), matches, s))))


# --------------------------------------------------------------------------- native inputs (bounded run-time check / witness search)

@examples("spowtd.classify:get_mystery_jump_mask")
def _ex_mystery(tier, rng):
    import itertools
    import numpy as np
    for n in range(0, 6 if tier == "quick" else 8):
        for bits in itertools.product([False, True], repeat=2 * n):
            yield {"is_jump": np.array(bits[:n], dtype=bool), "is_raining": np.array(bits[n:], dtype=bool)}


@examples("spowtd.classify:get_true_interval_masks")
def _ex_masks(tier, rng):
    from pyvc.native import small_bool_vectors
    for v in small_bool_vectors(8 if tier == "quick" else 12):
        yield {"boolean_vector": v}


@adapter("spowtd.classify:get_true_interval_masks")
def _ad_masks(repo):
    from pyvc.native import resolve_function
    f = resolve_function(repo, "spowtd.classify:get_true_interval_masks")
    return lambda boolean_vector: list(f(boolean_vector))


@examples("spowtd.classify:find_stable_matching")
def _ex_gs(tier, rng):
    """All bipartite candidate graphs on <= 3 storms x <= 3 rises with every ordering of each
    storm's list and preference values in {0,1,2} (ties included), storms keyed 1.., rises 10.."""
    import itertools
    S, J = (3, 3) if tier == "quick" else (3, 4)
    storms = list(range(1, S + 1))
    jumps = list(range(10, 10 + J))
    subsets = []
    for r in range(0, J + 1):
        for sub in itertools.combinations(jumps, r):
            subsets.extend(itertools.permutations(sub))
    count = 0
    limit = 4000 if tier == "quick" else 40000
    combos = list(itertools.product(subsets, repeat=S))
    rng.shuffle(combos)
    for lists in combos:
        prefs = {}
        for s, lst in zip(storms, lists):
            for j in lst:
                prefs.setdefault(j, {})[s] = float(-rng.randint(0, 2))
        yield {"storm_candidates": {s: list(l) for s, l in zip(storms, lists)}, "jump_preferences": prefs}
        count += 1
        if count >= limit:
            return
