"""Sidecar contracts for spowtd/classify.py (parsed by pyvc; importable for the native reading)."""
from pyvc.spec import *   # noqa


@spec
def settled(jump, rain, k):
    """Some rainy step r <= k exists and nothing since r is rainy or a jump."""
    return exists(0, k + 1, lambda r: rain[r] and forall(r + 1, k + 1, lambda q: not rain[q] and not jump[q]))


@contract("spowtd.classify:assert_equal", args={"a": "int", "b": "int", "message": "none"}, returns="none")
def _assert_equal(a, b, message):
    requires(a == b)


@contract("spowtd.classify:get_mystery_jump_mask",
          args={"is_jump": "array[bool]", "is_raining": "array[bool]"}, returns="array[bool]")
def _get_mystery_jump_mask(is_jump, is_raining, result):
    requires(len(is_jump) == len(is_raining))
    ensures(len(result) == len(is_jump))
    ensures(forall(0, len(result), lambda i: result[i] == (not settled(is_jump, is_raining, i))))
    loop(0, inv=lambda it: len(mystery_jump_mask) == len(is_jump)
         and in_mystery == (not settled(is_jump, is_raining, it - 1))
         and forall(0, it, lambda k: mystery_jump_mask[k] == (not settled(is_jump, is_raining, k))))


@spec
def is_maximal_run(bv, mask):
    """mask is the indicator of one maximal run of True values of bv (universal reading)."""
    return (len(mask) == len(bv)
            and exists(0, len(bv), lambda k: mask[k])
            and forall(0, len(bv), lambda k: implies(mask[k], bv[k]))
            and forall(0, len(bv), lambda i: forall(i, len(bv), lambda j: implies(
                mask[i] and mask[j], forall(i, j, lambda l: mask[l]))))
            and forall(1, len(bv), lambda k: implies(mask[k] and bv[k - 1], mask[k - 1]))
            and forall(0, len(bv) - 1, lambda k: implies(mask[k] and bv[k + 1], mask[k + 1])))


@contract("spowtd.classify:get_true_interval_masks",
          args={"boolean_vector": "array[bool]"}, returns="list[array[bool]]")
def _get_true_interval_masks(boolean_vector, result):
    """C01/C03/C04: the result is, in order, the indicator vectors of all maximal True runs."""
    ghost(after="indices = np.cumsum(",
          do=lambda: run_counter_basic(boolean_vector, indices) and run_counter_separation(boolean_vector, indices))
    ensures(forall(0, len(result), lambda r: is_maximal_run(boolean_vector, result[r])))
    # ordered and pairwise disjoint
    ensures(forall(0, len(result), lambda r: forall(r + 1, len(result), lambda s: forall(
        0, len(boolean_vector), lambda i: forall(0, len(boolean_vector), lambda j: implies(
            result[r][i] and result[s][j], i < j))))))
    # every True element is covered
    ensures(forall(0, len(boolean_vector), lambda k: implies(
        boolean_vector[k], exists(0, len(result), lambda r: result[r][k]))))
