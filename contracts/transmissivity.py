"""Sidecar contracts for spowtd/transmissivity.py (C15, C16)."""
from pyvc.spec import *   # noqa

ST_FIELDS = {"zeta_knots_mm": "array[real]", "K_knots_km_d": "array[real]", "minimum_transmissivity_m2_d": "real",
             "_spline": "obj[spowtd.spline:Spline]"}


@spec
def st_invariant(s):
    """Representation invariant established by SplineTransmissivity.__init__ (assumed contract of
    splrep(k=1): the interpolating piecewise-linear spline of log K; validated bounded)."""
    return (len(s.zeta_knots_mm) >= 2 and len(s.K_knots_km_d) == len(s.zeta_knots_mm)
            and forall(0, len(s.zeta_knots_mm), lambda j: forall(0, j, lambda i: s.zeta_knots_mm[i] < s.zeta_knots_mm[j]))
            and len(s._spline._tck[0]) >= 2
            and lo_knot(s._spline) == s.zeta_knots_mm[0]
            and hi_knot(s._spline) == s.zeta_knots_mm[len(s.zeta_knots_mm) - 1]
            and s.minimum_transmissivity_m2_d > 0)


@spec
def conductivity_of(s, z):
    """exp of the log-conductivity spline at z."""
    return uf_real("exp", S_of(s._spline, clamp(s._spline, z)))


@contract("spowtd.transmissivity:SplineTransmissivity.conductivity", self_fields=ST_FIELDS,
          args={"water_level_mm": "real"}, returns="real")
def _conductivity(self, water_level_mm, result):
    requires(st_invariant(self))
    requires(water_level_mm >= self.zeta_knots_mm[0])
    raises(NotImplementedError, when=water_level_mm >= self.zeta_knots_mm[len(self.zeta_knots_mm) - 1])
    ensures(result == conductivity_of(self, water_level_mm))


@contract("spowtd.transmissivity:SplineTransmissivity.call_scalar", self_fields=ST_FIELDS,
          args={"water_level_mm": "real"}, returns="real", ghost_results={"g_Q": "fn"})
def _call_scalar(self, water_level_mm, result):
    """C15: the minimum at and below the lowest knot; above it the minimum plus Q(level) - Q(lowest
    knot), Q the antiderivative (assumed contract of quad) of self.conductivity; quad only needs the
    conductivity strictly inside the range, so levels up to and including the highest knot are fine."""
    requires(st_invariant(self))
    requires(water_level_mm <= self.zeta_knots_mm[len(self.zeta_knots_mm) - 1])
    ghost(before="return self.minimum_transmissivity_m2_d + ", let="g_Q", do=lambda: antiderivative_of(self.conductivity))
    ensures(implies(water_level_mm <= self.zeta_knots_mm[0], result == self.minimum_transmissivity_m2_d))
    ensures(implies(water_level_mm > self.zeta_knots_mm[0],
                    result == self.minimum_transmissivity_m2_d + g_Q(water_level_mm) - g_Q(self.zeta_knots_mm[0])))


@contract("spowtd.transmissivity:SplineTransmissivity.__call__", self_fields=ST_FIELDS,
          args={"water_level_mm": "real"}, returns="real")
def _st_call_scalar(self, water_level_mm, result):
    """Scalar argument: exactly call_scalar."""
    requires(st_invariant(self))
    requires(water_level_mm <= self.zeta_knots_mm[len(self.zeta_knots_mm) - 1])
    ensures(implies(water_level_mm <= self.zeta_knots_mm[0], result == self.minimum_transmissivity_m2_d))


@contract("spowtd.transmissivity:SplineTransmissivity.__call__#array", self_fields=ST_FIELDS,
          args={"water_level_mm": "array[real]"}, returns="array[real]")
def _st_call_array(self, water_level_mm, result):
    """Array argument: element-wise call_scalar (same values as the scalar path)."""
    requires(st_invariant(self))
    requires(forall(0, len(water_level_mm), lambda i: water_level_mm[i] <= self.zeta_knots_mm[len(self.zeta_knots_mm) - 1]))
    ensures(len(result) == len(water_level_mm))
    ensures(forall(0, len(result), lambda i: implies(
        water_level_mm[i] <= self.zeta_knots_mm[0], result[i] == self.minimum_transmissivity_m2_d)))


@contract("spowtd.transmissivity:PeatclsmTransmissivity.__call__",
          self_fields={"Ksmacz0": "real", "alpha": "real", "zeta_max_cm": "real"},
          args={"water_level_mm": "real"}, returns="real")
def _pt_call(self, water_level_mm, result):
    """C16: Ksmacz0 (zeta_max - zeta)^(1 - alpha) / (100 (alpha - 1)) with zeta in cm; refused above zeta_max."""
    requires(self.alpha > 1)
    raises(ValueError, when=water_level_mm / 10 > self.zeta_max_cm)
    ensures(result == self.Ksmacz0 * uf_real("pow", self.zeta_max_cm - water_level_mm / 10, 1 - self.alpha)
            / (100 * (self.alpha - 1)))
