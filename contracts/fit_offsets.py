"""Sidecar contracts for spowtd/fit_offsets.py (C05, C08, C13)."""
from pyvc.spec import *   # noqa


@contract("spowtd.fit_offsets:split_mapping_by_keys",
          args={"mapping": "dict[int,list[tuple[int,real]]]", "key_lists": "list[list[int]]"},
          returns="list[dict[int,list[tuple[int,real]]]]")
def _split_mapping_by_keys(mapping, key_lists, result):
    """One mapping per key list, holding exactly the entries of `mapping` whose key is in that list."""
    ensures(len(result) == len(key_lists))
    ensures(forall(0, len(result), lambda c: forall_int(lambda h:
            (h in result[c]) == (h in mapping and exists(0, len(key_lists[c]), lambda q: key_lists[c][q] == h)))))
    ensures(forall(0, len(result), lambda c: forall_int(lambda h: implies(h in result[c], result[c][h] == mapping[h]))))
    loop(0, types={"mappings": "list[dict[int,list[tuple[int,real]]]]"}, inv=lambda it: len(mappings) == it
         and forall(0, it, lambda c: forall_int(lambda h:
            (h in mappings[c]) == (h in mapping and exists(0, len(key_lists[c]), lambda q: key_lists[c][q] == h))))
         and forall(0, it, lambda c: forall_int(lambda h: implies(h in mappings[c], mappings[c][h] == mapping[h]))))


@spec
def same_array(a, b):
    return len(a) == len(b) and forall(0, len(a), lambda i: a[i] == b[i])


@spec
def series_ok(series):
    """What regrid needs of every series: as many abscissae as ordinates, at least two, abscissae increasing."""
    return forall(0, len(series), lambda k: len(series[k][0]) == len(series[k][1]) and len(series[k][0]) >= 2
                  and forall(0, len(series[k][0]), lambda j: forall(0, j, lambda i: series[k][0][i] < series[k][0][j])))


@spec
def head_mapping_ok(hm, n):
    """Every level holds at least one crossing; the series ids at a level are increasing (hence distinct) positions
    below n."""
    return forall_int(lambda h: not (h in hm) or (len(hm[h]) >= 1
                                                  and forall(0, len(hm[h]), lambda q: 0 <= hm[h][q][0] and hm[h][q][0] < n
                                                             and forall(0, q, lambda p: hm[h][p][0] < hm[h][q][0]))))


@contract("spowtd.fit_offsets:build_head_mapping",
          args={"series": "list[tuple[array[real],array[real]]]", "head_step": "real"},
          returns="dict[int,list[tuple[int,real]]]")
def _build_head_mapping(series, head_step, result):
    """Structure of the crossing table: per level a non-empty list of (series position, mean crossing) with the
    series positions increasing.  (That the second component is the mean of that series' crossings of the level
    is exercised by the table-level stand-in of C13.)"""
    requires(head_step > 0)
    requires(series_ok(series))
    may_raise(ValueError)
    ensures(head_mapping_ok(result, len(series)))
    loop(0, types={"head_mapping": "dict[int,list[tuple[int,real]]]"}, inv=lambda it: head_mapping_ok(head_mapping, it))
    loop(1, types={"all_times": "dict[int,list[real]]"},
         inv=lambda it: forall_int(lambda h: implies(h in all_times, len(all_times[h]) >= 1)))
    ghost(before="for head_id, time in list(all_times.items())", let="g_at", do=lambda: list(all_times.items()))
    loop(2, types={"head_mapping": "dict[int,list[tuple[int,real]]]"},
         inv=lambda it: forall_int(lambda h: implies(h in head_mapping, len(head_mapping[h]) >= 1
             and forall(0, len(head_mapping[h]), lambda q: 0 <= head_mapping[h][q][0] and head_mapping[h][q][0] <= series_id
                        and forall(0, q, lambda p: head_mapping[h][p][0] < head_mapping[h][q][0]))
             and implies(head_mapping[h][len(head_mapping[h]) - 1][0] == series_id,
                         exists(0, it, lambda j: g_at[j][0] == h)))))


@spec
def crossing_filed(R, T, P, S, p):
    """Crossing p of one series (R = what regrid yielded for it) is filed under its own level, at place P[p] of that
    level's list T[level], and S[level][P[p]] points back to p."""
    return (R[p][0] in T and 0 <= P[p] and P[p] < len(T[R[p][0]]) and T[R[p][0]][P[p]] == R[p][1]
            and R[p][0] in S and S[R[p][0]][P[p]] == p)


@spec
def level_list_traced(R, T, P, S, n, h):
    """Every entry of the list filed under level h is a crossing of level h (among the first n yielded), filed at that
    place: with crossing_filed, the list T[h] is exactly the crossings of level h, each once."""
    return (h in S and len(S[h]) == len(T[h]) and len(T[h]) >= 1
            and forall(0, len(T[h]), lambda i: 0 <= S[h][i] and S[h][i] < n and R[S[h][i]][0] == h and P[S[h][i]] == i))


@contract("spowtd.fit_offsets:build_head_mapping#means",
          args={"series": "list[tuple[array[real],array[real]]]", "head_step": "real"},
          returns="dict[int,list[tuple[int,real]]]")
def _build_head_mapping_means(series, head_step, result):
    """C13 ("each of its crossing values equals the mean crossing position computed from that interval's own
    samples"): the value entered for series s at level h is the arithmetic mean of exactly the positions regrid
    reports for series s at level h.  Ghost state per series s: g_cross[s] (what regrid yielded), g_times[s]
    (level -> positions filed), g_pos[s] / g_src[s] (the bijection between the crossings of a level and the places of
    its list), and g_psum[(s, h)] (partial sums of g_times[s][h]: the entered value is the last partial sum divided by
    the number of positions)."""
    requires(head_step > 0)
    requires(series_ok(series))
    may_raise(ValueError)
    ghost(before="head_mapping = {}", let="g_cross", do=lambda: [])
    ghost(before="head_mapping = {}", let="g_times", do=lambda: [])
    ghost(before="head_mapping = {}", let="g_pos", do=lambda: [])
    ghost(before="head_mapping = {}", let="g_src", do=lambda: [])
    ghost(before="head_mapping = {}", let="g_psum", do=lambda: {})
    ghost(after="all_times = {}", let="g_p", do=lambda: [])
    ghost(after="all_times = {}", let="g_s", do=lambda: {})
    ghost(after="all_times.setdefault(head_id, []).append(time)", let="g_p", do=lambda: g_p + [len(all_times[head_id]) - 1])
    ghost(after="all_times.setdefault(head_id, []).append(time)", do=lambda: g_s.setdefault(head_id, []).append(loop_it(1)))
    ghost(after="all_times.setdefault(head_id, []).append(time)", let="g_s", do=lambda: g_s)
    loop(1, types={"all_times": "dict[int,list[real]]", "g_p": "list[int]", "g_s": "dict[int,list[int]]"},
         inv=lambda it: len(g_p) == it
         and forall_int(lambda h: (h in g_s) == (h in all_times))
         and forall(0, it, lambda p: crossing_filed(loop_seq(1), all_times, g_p, g_s, p))
         and forall_int(lambda h: implies(h in all_times, level_list_traced(loop_seq(1), all_times, g_p, g_s, it, h))))
    ghost(before="for head_id, time in list(all_times.items())", let="g_at", do=lambda: list(all_times.items()))
    ghost(before="for head_id, time in list(all_times.items())", let="g_cross", do=lambda: g_cross + [loop_seq(1)])
    ghost(before="for head_id, time in list(all_times.items())", let="g_times", do=lambda: g_times + [all_times])
    ghost(before="for head_id, time in list(all_times.items())", let="g_pos", do=lambda: g_pos + [g_p])
    ghost(before="for head_id, time in list(all_times.items())", let="g_src", do=lambda: g_src + [g_s])
    ghost(after="t_mean = ", let="g_psum", do=lambda: dict_put(g_psum, (series_id, head_id), prefix_sums(time)))
    loop(2, types={"head_mapping": "dict[int,list[tuple[int,real]]]", "g_psum": "dict[tuple[int,int],list[real]]"},
         inv=lambda it: forall_int(lambda h: implies(h in head_mapping, len(head_mapping[h]) >= 1
             and forall(0, len(head_mapping[h]), lambda q: 0 <= head_mapping[h][q][0] and head_mapping[h][q][0] <= series_id)))
         and forall(0, series_id, lambda s: forall_int(lambda h: implies(h in g_times[s],
             (s, h) in g_psum and is_prefix_sums(g_times[s][h], g_psum[(s, h)]))))
         and forall(0, it, lambda j: (series_id, g_at[j][0]) in g_psum
                    and is_prefix_sums(all_times[g_at[j][0]], g_psum[(series_id, g_at[j][0])]))
         and forall_int(lambda h: implies(h in head_mapping, forall(0, len(head_mapping[h]), lambda q:
             h in g_times[head_mapping[h][q][0]]
             and (head_mapping[h][q][0] < series_id or exists(0, it, lambda j: g_at[j][0] == h))
             and head_mapping[h][q][1] == g_psum[(head_mapping[h][q][0], h)][len(g_times[head_mapping[h][q][0]][h]) - 1]
             / len(g_times[head_mapping[h][q][0]][h])))))
    loop(0, types={"head_mapping": "dict[int,list[tuple[int,real]]]", "g_cross": "list[list[tuple[int,real]]]",
                   "g_times": "list[dict[int,list[real]]]", "g_pos": "list[list[int]]", "g_src": "list[dict[int,list[int]]]",
                   "g_psum": "dict[tuple[int,int],list[real]]"},
         inv=lambda it: len(g_cross) == it and len(g_times) == it and len(g_pos) == it and len(g_src) == it
         and forall_int(lambda h: implies(h in head_mapping, len(head_mapping[h]) >= 1
             and forall(0, len(head_mapping[h]), lambda q: 0 <= head_mapping[h][q][0] and head_mapping[h][q][0] < it)))
         and forall(0, it, lambda s: len(g_pos[s]) == len(g_cross[s])
                    and forall(0, len(g_cross[s]), lambda p: crossing_filed(g_cross[s], g_times[s], g_pos[s], g_src[s], p)))
         and forall(0, it, lambda s: forall_int(lambda h: implies(h in g_times[s],
             level_list_traced(g_cross[s], g_times[s], g_pos[s], g_src[s], len(g_cross[s]), h))))
         and forall(0, it, lambda s: forall_int(lambda h: implies(h in g_times[s],
             (s, h) in g_psum and is_prefix_sums(g_times[s][h], g_psum[(s, h)]))))
         and forall_int(lambda h: implies(h in head_mapping, forall(0, len(head_mapping[h]), lambda q:
             h in g_times[head_mapping[h][q][0]]
             and head_mapping[h][q][1] == g_psum[(head_mapping[h][q][0], h)][len(g_times[head_mapping[h][q][0]][h]) - 1]
             / len(g_times[head_mapping[h][q][0]][h])))))
    ensures(len(g_cross) == len(series) and len(g_times) == len(series) and len(g_pos) == len(series) and len(g_src) == len(series))
    # every position regrid reports for series s is filed under its level ...
    ensures(forall(0, len(series), lambda s: len(g_pos[s]) == len(g_cross[s])
                   and forall(0, len(g_cross[s]), lambda p: crossing_filed(g_cross[s], g_times[s], g_pos[s], g_src[s], p))))
    # ... and nothing else is
    ensures(forall(0, len(series), lambda s: forall_int(lambda h: implies(h in g_times[s],
            level_list_traced(g_cross[s], g_times[s], g_pos[s], g_src[s], len(g_cross[s]), h)))))
    # the entered value is the mean of that list
    ensures(forall(0, len(series), lambda s: forall_int(lambda h: implies(h in g_times[s],
            (s, h) in g_psum and is_prefix_sums(g_times[s][h], g_psum[(s, h)])))))
    ensures(forall_int(lambda h: implies(h in result, forall(0, len(result[h]), lambda q:
            0 <= result[h][q][0] and result[h][q][0] < len(series) and h in g_times[result[h][q][0]]
            and result[h][q][1] == g_psum[(result[h][q][0], h)][len(g_times[result[h][q][0]][h]) - 1]
            / len(g_times[result[h][q][0]][h])))))


@contract("spowtd.fit_offsets:get_connected_components", args={"head_mapping": "dict[int,set[int]]"},
          returns="list[list[int]]")
def _get_connected_components(head_mapping, result):
    """ASSUMED (groups are keyed by tuples of varying length: outside the subset; validated on all small overlap
    structures by bounded.fit_checks:run_C08): every returned group is a list of levels of the mapping."""
    may_raise(AssertionError)
    ensures(forall(0, len(result), lambda c: forall(0, len(result[c]), lambda q: result[c][q] in head_mapping)))


@contract("spowtd.fit_offsets:get_series_time_offsets",
          args={"series_list": "list[tuple[array[real],array[real]]]", "head_step": "real"},
          returns="tuple[list[int],array[real],dict[int,list[tuple[int,real]]]]")
def _get_series_time_offsets(series_list, head_step, result):
    """The returned indices are distinct positions of series_list, one offset per index; every level of the
    returned mapping holds at least two entries and every entry names a returned index.  Proved from the contracts
    of build_head_mapping, split_mapping_by_keys and find_offsets; get_connected_components enters through its
    assumed contract."""
    requires(head_step > 0)
    requires(series_ok(series_list))
    may_raise(ValueError)
    may_raise(AssertionError)
    may_raise(LinAlgError)
    loop(0, types={"sorted_list": "list[tuple[array[real],array[real]]]", "index_mapping": "dict[int,int]"},
         inv=lambda it: len(sorted_list) == it
         and forall(0, it, lambda j: same_array(sorted_list[j][0], dec[j][0]) and same_array(sorted_list[j][1], dec[j][1]))
         and forall_int(lambda j: (j in index_mapping) == (0 <= j and j < it))
         and forall(0, it, lambda j: index_mapping[j] == dec[j][2]))
    ghost(after="series_ids, offsets = find_offsets(", do=lambda: cut(forall(0, len(series_ids), lambda j:
          0 <= series_ids[j] and series_ids[j] < len(series_list))))
    ghost(before="head_mapping = build_head_mapping(", do=lambda: cut(forall(0, len(series_list), lambda j2: forall(0, j2, lambda j:
          index_mapping[j] != index_mapping[j2]))))
    ghost(before="head_mapping = build_head_mapping(", do=lambda: cut(forall(0, len(series_list), lambda j:
          0 <= index_mapping[j] and index_mapping[j] < len(series_list))))
    ghost(after="original_indices = [", do=lambda: cut(len(original_indices) == len(series_ids) and forall(
          0, len(series_ids), lambda j: original_indices[j] == index_mapping[series_ids[j]])))
    ghost(before="output_mapping = {}", let="g_items", do=lambda: list(head_mapping.items()))
    loop(1, types={"output_mapping": "dict[int,list[tuple[int,real]]]"},
         inv=lambda it: forall_int(lambda h: (h in output_mapping) == exists(0, it, lambda j: g_items[j][0] == h))
         and forall_int(lambda h: implies(h in output_mapping, len(output_mapping[h]) == len(head_mapping[h])
                                          and forall(0, len(head_mapping[h]), lambda q:
                                                     output_mapping[h][q][0] == index_mapping[head_mapping[h][q][0]]
                                                     and output_mapping[h][q][1] == head_mapping[h][q][1]))))
    ensures(len(result[1]) == len(result[0]))
    ensures(forall(0, len(result[0]), lambda i: 0 <= result[0][i] and result[0][i] < len(series_list)))
    ensures(forall(0, len(result[0]), lambda j: forall(0, j, lambda i: result[0][i] != result[0][j])))
    ensures(forall_int(lambda h: implies(h in result[2], len(result[2][h]) >= 2)))
    ensures(forall_int(lambda h, q: implies(h in result[2] and 0 <= q and q < len(result[2][h]),
            exists(0, len(result[0]), lambda i: result[0][i] == result[2][h][q][0]))))


# --------------------------------------------------------------------------- find_offsets (C05: the bridge to lean/LeastSquares.lean)

@spec
def in_level(hm, h, s):
    """Series s has a crossing at level h."""
    return exists(0, len(hm[h]), lambda p: hm[h][p][0] == s)


@spec
def row_off(offs, j):
    """Number of rows assembled before the j-th level of the enumeration."""
    return 0 if j == 0 else offs[j - 1]


@spec
def row_place(items, offs, rj, rp, r):
    """Row r belongs to the rp[r]-th crossing of the rj[r]-th level (in the order in which the levels are enumerated)."""
    return (0 <= rj[r] and rj[r] < len(items) and 0 <= rp[r] and rp[r] < len(items[rj[r]][1])
            and r == row_off(offs, rj[r]) + rp[r])


@spec
def row_A(hm, items, ids, A, rj, rp, r):
    """Row r is row designA of lean/LeastSquares.lean for its (level, series): 1/n in the column of every
    non-reference series present at the level, minus 1 in the column of the row's own series (if not the reference)."""
    return (len(A[r]) == len(ids) - 1
            and forall(0, len(ids) - 1, lambda c: A[r][c] ==
                       (1.0 / len(items[rj[r]][1]) if in_level(hm, items[rj[r]][0], ids[c]) else 0.0)
                       - (1.0 if ids[c] == items[rj[r]][1][rp[r]][0] else 0.0)))


@spec
def row_b(items, means, b, rj, rp, r):
    """designB: crossing time minus the level's mean."""
    return b[r] == items[rj[r]][1][rp[r]][1] - means[rj[r]]


@contract("spowtd.fit_offsets:find_offsets", args={"head_mapping": "dict[int,list[tuple[int,real]]]"},
          returns="tuple[list[int],array[real]]",
          ghost_results={"g_hm": "dict[int,list[tuple[int,real]]]", "g_items": "list[tuple[int,list[tuple[int,real]]]]",
                         "g_off": "array[int]", "g_means": "list[real]", "g_A": "array[array[real]]", "g_b": "array[real]",
                         "g_rj": "list[int]", "g_rp": "list[int]"})
def _find_offsets(head_mapping, result):
    """C05, bridge between the code and lean/LeastSquares.lean: the matrix and right-hand side that find_offsets
    assembles are designA / designB (one row per (level, series at that level) over the levels with at least two
    series, one column per non-reference series, the reference being the largest series id), and the returned
    offsets are the solution numpy.linalg.solve returns for the normal equations of that system, followed by 0
    for the reference."""
    requires(forall_int(lambda h: implies(h in head_mapping, len(head_mapping[h]) >= 1)))
    requires(forall_int(lambda h: implies(h in head_mapping, forall(0, len(head_mapping[h]), lambda q: forall(0, q, lambda p:
             head_mapping[h][p][0] != head_mapping[h][q][0])))))
    # nothing to align (no level holds two series): max() of the empty id list raises ValueError
    raises(ValueError, when=not exists_int(lambda h: h in head_mapping and len(head_mapping[h]) >= 2))
    may_raise(LinAlgError)
    modifies("head_mapping")          # the levels with a single series are deleted from the caller's mapping
    ghost(before="for head_id, seq in list(head_mapping.items())", let="g_it0", do=lambda: list(head_mapping.items()))
    loop(0, inv=lambda it: forall_int(lambda h: (h in head_mapping) == (h in old(head_mapping) and not exists(0, it, lambda j:
         g_it0[j][0] == h and len(g_it0[j][1]) == 1)))
         and forall_int(lambda h: implies(h in head_mapping, head_mapping[h] == old(head_mapping)[h])))
    ghost(before="series_ids = (", let="g_hm", do=lambda: head_mapping)
    ghost(before="A = np.zeros(", let="g_items", do=lambda: list(head_mapping.items()))
    ghost(before="A = np.zeros(", let="g_cnt", do=lambda: [len(series_at_head) for series_at_head in list(head_mapping.values())])
    ghost(before="A = np.zeros(", let="g_off", do=lambda: prefix_sums(g_cnt))
    ghost(before="A = np.zeros(", do=lambda: prefix_sums_monotone(g_cnt, g_off))
    ghost(before="A = np.zeros(", do=lambda: cut(number_of_equations == (0 if len(g_items) == 0 else g_off[len(g_items) - 1])))
    ghost(before="A = np.zeros(", let="g_means", do=lambda: [])
    ghost(before="A = np.zeros(", let="g_rj", do=lambda: [])
    ghost(before="A = np.zeros(", let="g_rp", do=lambda: [])
    ghost(before="row_template[:] = 0", do=lambda: cut(head_id == g_items[loop_it(1)][0] and series_at_head == g_items[loop_it(1)][1]))
    ghost(before="row_template[:] = 0", do=lambda: cut(g_off[loop_it(1)] == row_off(g_off, loop_it(1)) + len(series_at_head)))
    ghost(before="row_template[:] = 0", do=lambda: cut(g_off[loop_it(1)] <= number_of_equations))
    ghost(after="series_indices = dict(", do=lambda: cut(forall(0, len(series_ids), lambda j:
          series_ids[j] in series_indices and series_indices[series_ids[j]] == j)))
    ghost(after="series_indices = dict(", do=lambda: cut(forall_int(lambda s: implies(
          s in series_indices, 0 <= series_indices[s] and series_indices[s] < len(series_ids) and series_ids[series_indices[s]] == s))))
    ghost(after="number_of_series_at_head = len(sids)", do=lambda: cut(
          number_of_series_at_head == len(series_at_head)
          and forall(0, len(series_at_head), lambda q: sids[q] == series_at_head[q][0] and times[q] == series_at_head[q][1])))
    ghost(after="number_of_series_at_head = len(sids)", do=lambda: cut(forall(0, len(sids), lambda q: sids[q] in series_indices)))
    ghost(after="reference_index = ", do=lambda: cut(reference_index == series_ids[len(series_ids) - 1]))
    ghost(before="row_template[:] = 0", do=lambda: cut(head_id in g_hm and g_hm[head_id] == series_at_head))
    ghost(after="row_template[indices] = ", do=lambda: cut(forall(0, number_of_unknowns, lambda c: implies(
          in_level(g_hm, head_id, series_ids[c]), row_template[c] == 1.0 / len(series_at_head)))))
    ghost(after="row_template[indices] = ", do=lambda: cut(forall(0, number_of_unknowns, lambda c: implies(
          not in_level(g_hm, head_id, series_ids[c]), row_template[c] == 0.0))))
    ghost(after="mean_time = np.mean(times)", let="g_means", do=lambda: g_means + [mean_time])
    ghost(before="A[row_index] = row_template", let="g_rj", do=lambda: g_rj + [loop_it(1)])
    ghost(before="A[row_index] = row_template", let="g_rp", do=lambda: g_rp + [loop_it(2)])
    loop(1, types={"g_means": "list[real]", "g_rj": "list[int]", "g_rp": "list[int]"},
         inv=lambda it: row_index == row_off(g_off, it) and len(g_means) == it and len(g_rj) == row_index and len(g_rp) == row_index
         and len(A) == number_of_equations and len(b) == number_of_equations and len(row_template) == number_of_unknowns
         and forall(0, len(A), lambda r: len(A[r]) == number_of_unknowns)
         and forall(0, row_index, lambda r: row_place(g_items, g_off, g_rj, g_rp, r))
         and forall(0, row_index, lambda r: row_A(g_hm, g_items, series_ids, A, g_rj, g_rp, r))
         and forall(0, row_index, lambda r: row_b(g_items, g_means, b, g_rj, g_rp, r)))
    loop(2, types={"g_rj": "list[int]", "g_rp": "list[int]"},
         inv=lambda it: row_index == row_off(g_off, loop_it(1)) + it and len(g_rj) == row_index and len(g_rp) == row_index
         and len(A) == number_of_equations and len(b) == number_of_equations
         and forall(0, len(A), lambda r: len(A[r]) == number_of_unknowns)
         and forall(0, row_index, lambda r: row_place(g_items, g_off, g_rj, g_rp, r))
         and forall(0, row_index, lambda r: row_A(g_hm, g_items, series_ids, A, g_rj, g_rp, r))
         and forall(0, row_index, lambda r: row_b(g_items, g_means, b, g_rj, g_rp, r)))
    ghost(before="ATA = np.dot(", let="g_A", do=lambda: A)
    ghost(before="ATA = np.dot(", let="g_b", do=lambda: b)
    ensures(forall_int(lambda h: (h in g_hm) == (h in old(head_mapping) and len(old(head_mapping)[h]) >= 2)))
    ensures(forall_int(lambda h: implies(h in g_hm, g_hm[h] == old(head_mapping)[h])))
    ensures(forall_int(lambda h: (h in head_mapping) == (h in g_hm)) and forall_int(lambda h: implies(h in g_hm, head_mapping[h] == g_hm[h])))
    # the series ids, ascending; the reference is the last
    ensures(len(result[0]) >= 1 and forall(0, len(result[0]), lambda j: forall(0, j, lambda i: result[0][i] < result[0][j])))
    # ... exactly the series present at some remaining level (two directions, each with a usable trigger)
    ensures(forall(0, len(result[0]), lambda j: exists_int(lambda h: h in g_hm and in_level(g_hm, h, result[0][j]))))
    ensures(forall_int(lambda h: implies(h in g_hm, forall(0, len(g_hm[h]), lambda p:
            exists(0, len(result[0]), lambda j: result[0][j] == g_hm[h][p][0])))))
    ensures(len(result[1]) == len(result[0]) and result[1][len(result[0]) - 1] == 0)
    # the rows
    ensures(len(g_items) == len(g_hm) and len(g_off) == len(g_items) and len(g_means) == len(g_items))
    ensures(forall(0, len(g_items), lambda j: g_items[j][0] in g_hm and g_items[j][1] == g_hm[g_items[j][0]]))
    ensures(forall(0, len(g_off), lambda j: g_off[j] == row_off(g_off, j) + len(g_items[j][1])))
    ensures(len(g_A) == (0 if len(g_items) == 0 else g_off[len(g_items) - 1]) and len(g_b) == len(g_A)
            and len(g_rj) == len(g_A) and len(g_rp) == len(g_A))
    ensures(forall(0, len(g_A), lambda r: row_place(g_items, g_off, g_rj, g_rp, r)))
    ensures(forall(0, len(g_A), lambda r: row_A(g_hm, g_items, result[0], g_A, g_rj, g_rp, r)))
    ensures(forall(0, len(g_A), lambda r: row_b(g_items, g_means, g_b, g_rj, g_rp, r)))
    # the offsets: what numpy.linalg.solve returned for the normal equations of exactly this (A, b), then 0
    ensures(forall(0, len(result[0]) - 1, lambda c: result[1][c] == lstsq_solution(g_A, g_b)[c]))


# --------------------------------------------------------------------------- native inputs (run-time contract check, cross-check)

def _small_series(tier):
    """Collections of 1 .. 3 (quick) / 4 series, each a monotone or non-monotone short (t, H) record on a quarter-step
    lattice, overlapping in level or not."""
    import itertools
    import numpy as np
    shapes = [
        ([0.0, 10.0], [0.25, 2.5]), ([0.0, 5.0, 20.0], [3.5, 1.25, 0.5]), ([3.0, 4.0], [1.75, 1.8]),
        ([0.0, 10.0, 20.0, 30.0], [0.5, 2.25, 1.0, 3.75]), ([1.0, 2.0], [5.25, 7.5]), ([0.0, 1.0, 2.0], [2.0, 3.0, 4.0]),
    ]
    for n in range(1, 4 if tier == "quick" else 5):
        for combo in itertools.combinations(range(len(shapes)), n):
            yield [(np.array(shapes[i][0]), np.array(shapes[i][1])) for i in combo]


@examples("spowtd.fit_offsets:build_head_mapping")
def _ex_build_head_mapping(tier, rng):
    for series in _small_series(tier):
        for step in (1.0, 0.5):
            yield {"series": series, "head_step": step}


@examples("spowtd.fit_offsets:get_series_time_offsets")
def _ex_get_series_time_offsets(tier, rng):
    for series in _small_series(tier):
        for step in (1.0, 0.5):
            yield {"series_list": series, "head_step": step}


@examples("spowtd.fit_offsets:split_mapping_by_keys")
def _ex_split_mapping(tier, rng):
    m = {1: [(0, 0.5)], 2: [(0, 1.0), (1, 2.5)], 5: [(1, 3.0), (2, 0.25)], 7: [(2, 9.0)]}
    for keys in ([], [[1, 2]], [[2, 5], [7]], [[9], [1, 5, 7], [2]], [[1], [1]]):
        yield {"mapping": dict(m), "key_lists": [list(k) for k in keys]}
