"""Sidecar contracts for spowtd/fit_offsets.py (C05, C08, C13)."""
from pyvc.spec import *   # noqa


@contract("spowtd.fit_offsets:split_mapping_by_keys",
          args={"mapping": "dict[int,list[tuple[int,real]]]", "key_lists": "list[list[int]]"},
          returns="list[dict[int,list[tuple[int,real]]]]")
def _split_mapping_by_keys(mapping, key_lists, result):
    """One mapping per key list, holding exactly the entries of `mapping` whose key is in that list."""
    ensures(len(result) == len(key_lists))
    ensures(forall(0, len(result), lambda c: forall_int(lambda h:
            (h in result[c]) == (h in mapping and exists(0, len(key_lists[c]), lambda q: key_lists[c][q] == h)))))
    loop(0, types={"mappings": "list[dict[int,list[tuple[int,real]]]]"}, inv=lambda it: len(mappings) == it
         and forall(0, it, lambda c: forall_int(lambda h:
            (h in mappings[c]) == (h in mapping and exists(0, len(key_lists[c]), lambda q: key_lists[c][q] == h)))))
