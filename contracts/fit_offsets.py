"""Sidecar contracts for spowtd/fit_offsets.py (C05, C08, C13)."""
from pyvc.spec import *   # noqa


@contract("spowtd.fit_offsets:split_mapping_by_keys",
          args={"mapping": "dict[int,list[tuple[int,real]]]", "key_lists": "list[list[int]]"},
          returns="list[dict[int,list[tuple[int,real]]]]")
def _split_mapping_by_keys(mapping, key_lists, result):
    """One mapping per key list, holding exactly the entries of `mapping` whose key is in that list."""
    ensures(len(result) == len(key_lists))
    ensures(forall(0, len(result), lambda c: forall_int(lambda h:
            (h in result[c]) == (h in mapping and exists(0, len(key_lists[c]), lambda q: key_lists[c][q] == h)))))
    loop(0, types={"mappings": "list[dict[int,list[tuple[int,real]]]]"}, inv=lambda it: len(mappings) == it
         and forall(0, it, lambda c: forall_int(lambda h:
            (h in mappings[c]) == (h in mapping and exists(0, len(key_lists[c]), lambda q: key_lists[c][q] == h)))))


@contract("spowtd.fit_offsets:get_series_time_offsets",
          args={"series_list": "list[tuple[array[real],array[real]]]", "head_step": "real"},
          returns="tuple[list[int],array[real],dict[int,list[tuple[int,real]]]]")
def _get_series_time_offsets(series_list, head_step, result):
    """ASSUMED in this revision (validated by the bounded stand-ins of C05 / C08 / C13): the returned
    indices are distinct positions of series_list, one offset per index, and every (series, crossing)
    entry of the returned mapping names a returned index; each level holds at least two entries."""
    requires(head_step > 0)
    may_raise(ValueError)
    may_raise(AssertionError)
    may_raise(LinAlgError)
    ensures(len(result[1]) == len(result[0]))
    ensures(forall(0, len(result[0]), lambda i: 0 <= result[0][i] and result[0][i] < len(series_list)))
    ensures(forall(0, len(result[0]), lambda j: forall(0, j, lambda i: result[0][i] != result[0][j])))
    ensures(forall_int(lambda h: implies(h in result[2], len(result[2][h]) >= 2)))
    ensures(forall_int(lambda h, q: implies(h in result[2] and 0 <= q and q < len(result[2][h]),
            exists(0, len(result[0]), lambda i: result[0][i] == result[2][h][q][0]))))
