"""Sidecar contracts for simulate_rise / simulate_recession (C17, C18)."""
from pyvc.spec import *   # noqa


@contract("spowtd.simulate_rise:compute_rise_curve",
          args={"specific_yield": "obj[spowtd.specific_yield:SpecificYield]", "zeta_grid_mm": "array[real]",
                "mean_storage_mm": "real"}, returns="array[real]")
def _compute_rise_curve(specific_yield, zeta_grid_mm, mean_storage_mm, result):
    """C17: the difference in simulated storage between any two grid levels is the integral of
    the specific yield between them (G is the antiderivative of C14's contract)."""
    requires(len(zeta_grid_mm) >= 1)
    requires(len(specific_yield._spline._tck[0]) >= 2 and lo_knot(specific_yield._spline) < hi_knot(specific_yield._spline))
    ghost(after="W_mm = np.cumsum(", let="g_G", do=lambda: [G_of(specific_yield._spline, zeta_grid_mm[k]) for k in range(len(zeta_grid_mm))])
    ghost(after="W_mm = np.cumsum(", do=lambda: telescoping(dW_mm, W_mm, g_G))
    ensures(len(result) == len(zeta_grid_mm))
    ensures(forall(0, len(result), lambda i: forall(0, len(result), lambda j:
            result[j] - result[i] == G_of(specific_yield._spline, zeta_grid_mm[j]) - G_of(specific_yield._spline, zeta_grid_mm[i]))))
    loop(0, inv=lambda it: i == it + 1 and len(dW_mm) == len(zeta_grid_mm) and dW_mm[0] == 0
         and forall(1, it + 1, lambda k: dW_mm[k] == G_of(specific_yield._spline, zeta_grid_mm[k])
                    - G_of(specific_yield._spline, zeta_grid_mm[k - 1])))
