"""Sidecar contracts for simulate_rise / simulate_recession (C17, C18)."""
from pyvc.spec import *   # noqa


@contract("spowtd.simulate_rise:compute_rise_curve",
          args={"specific_yield": "obj[spowtd.specific_yield:SpecificYield]", "zeta_grid_mm": "array[real]",
                "mean_storage_mm": "real"}, returns="array[real]")
def _compute_rise_curve(specific_yield, zeta_grid_mm, mean_storage_mm, result):
    """C17: the difference in simulated storage between any two grid levels is the integral of
    the specific yield between them (G is the antiderivative of C14's contract)."""
    requires(len(zeta_grid_mm) >= 1)
    requires(len(specific_yield._spline._tck[0]) >= 2 and lo_knot(specific_yield._spline) < hi_knot(specific_yield._spline))
    ghost(after="W_mm = np.cumsum(", let="g_G", do=lambda: [G_of(specific_yield._spline, zeta_grid_mm[k]) for k in range(len(zeta_grid_mm))])
    ghost(after="W_mm = np.cumsum(", do=lambda: telescoping(dW_mm, W_mm, g_G))
    ensures(len(result) == len(zeta_grid_mm))
    ensures(forall(0, len(result), lambda i: forall(0, len(result), lambda j:
            result[j] - result[i] == G_of(specific_yield._spline, zeta_grid_mm[j]) - G_of(specific_yield._spline, zeta_grid_mm[i]))))
    loop(0, inv=lambda it: i == it + 1 and len(dW_mm) == len(zeta_grid_mm) and dW_mm[0] == 0
         and forall(1, it + 1, lambda k: dW_mm[k] == G_of(specific_yield._spline, zeta_grid_mm[k])
                    - G_of(specific_yield._spline, zeta_grid_mm[k - 1])))


@contract("spowtd.simulate_recession:compute_recession_curve",
          args={"specific_yield": "obj[spowtd.specific_yield:SpecificYield]", "transmissivity_m2_d": "fn",
                "zeta_grid_mm": "array[real]", "mean_elapsed_time_d": "real", "curvature_km": "real", "et_mm_d": "real"},
          returns="array[real]", ghost_results={"g_Q": "fn"}, nonlinear="nra")
def _compute_recession_curve(specific_yield, transmissivity_m2_d, zeta_grid_mm, mean_elapsed_time_d, curvature_km,
                             et_mm_d, result):
    """C18: between any two grid levels the elapsed time differs by Q(z_j) - Q(z_i), Q being the
    antiderivative (assumed contract of quad) of the function handed to quad, and that function is
    Sy(z) / (-ET - curvature * T(z)) at every level (ghost cut)."""
    requires(len(zeta_grid_mm) >= 1)
    requires(len(specific_yield._spline._tck[0]) >= 2 and lo_knot(specific_yield._spline) < hi_knot(specific_yield._spline))
    requires(et_mm_d >= 0 and curvature_km >= 0 and (et_mm_d > 0 or curvature_km > 0))
    requires(forall_real(lambda z: transmissivity_m2_d(z) > 0))
    ghost(after="def f(", let="g_Q", do=lambda: antiderivative_of(f))
    ghost(after="def f(", do=lambda: cut(forall_real(lambda z: f(z) == S_of(specific_yield._spline, clamp(specific_yield._spline, z))
                                                   / (-et_mm_d - curvature_km * transmissivity_m2_d(z)))))
    ghost(after="elapsed_time_d = np.cumsum(", let="g_G", do=lambda: [g_Q(zeta_grid_mm[k]) for k in range(len(zeta_grid_mm))])
    ghost(after="elapsed_time_d = np.cumsum(", do=lambda: telescoping(dt_d, elapsed_time_d, g_G))
    ghost(after="elapsed_time_d = np.cumsum(", let="g_W0", do=lambda: elapsed_time_d)
    ghost(after="elapsed_time_d += ", do=lambda: shifted_sum(g_W0, prefix_sums(g_W0), elapsed_time_d, prefix_sums(elapsed_time_d),
                                                             mean_elapsed_time_d - seq_mean(g_W0)))
    ensures(seq_mean(result) == mean_elapsed_time_d)
    ensures(len(result) == len(zeta_grid_mm))
    ensures(forall(0, len(result), lambda i: forall(0, len(result), lambda j:
            result[j] - result[i] == g_Q(zeta_grid_mm[j]) - g_Q(zeta_grid_mm[i]))))
    loop(0, inv=lambda it: i == it + 1 and len(dt_d) == len(zeta_grid_mm) and dt_d[0] == 0
         and forall(1, it + 1, lambda k: dt_d[k] == g_Q(zeta_grid_mm[k]) - g_Q(zeta_grid_mm[k - 1])))


@contract("spowtd.simulate_rise:compute_rise_curve#mean",
          args={"specific_yield": "obj[spowtd.specific_yield:SpecificYield]", "zeta_grid_mm": "array[real]",
                "mean_storage_mm": "real"}, returns="array[real]", nonlinear="nra", also_at_call_sites=True)
def _compute_rise_curve_mean(specific_yield, zeta_grid_mm, mean_storage_mm, result):
    """C17: the mean of the returned curve is the requested mean (real arithmetic: adding
    c = requested mean - mean(W) to every element shifts the sum by n c)."""
    requires(len(zeta_grid_mm) >= 1)
    requires(len(specific_yield._spline._tck[0]) >= 2 and lo_knot(specific_yield._spline) < hi_knot(specific_yield._spline))
    ghost(after="W_mm = np.cumsum(", let="g_W0", do=lambda: W_mm)
    ghost(after="W_mm += ", do=lambda: shifted_sum(g_W0, prefix_sums(g_W0), W_mm, prefix_sums(W_mm), mean_storage_mm - seq_mean(g_W0)))
    ensures(len(result) == len(zeta_grid_mm))
    ensures(seq_mean(result) == mean_storage_mm)
    loop(0, inv=lambda it: i == it + 1 and len(dW_mm) == len(zeta_grid_mm))


# --------------------------------------------------------------------------- simulate_rise (C17, the command's observation vector)

@contract("spowtd.specific_yield:create_specific_yield_function", args={"parameters": "yaml"},
          returns="obj[spowtd.specific_yield:SpecificYield]")
def _create_specific_yield_function(parameters, result):
    """ASSUMED (the constructors and PyYAML are outside the subset; validated by bounded.simulate_checks /
    peatclsm_checks): the object returned for a parameter document is a specific-yield function over a spline with
    at least two knots on a non-degenerate range."""
    may_raise(ValueError)
    may_raise(KeyError)
    may_raise(TypeError)
    ensures(len(result._spline._tck[0]) >= 2 and lo_knot(result._spline) < hi_knot(result._spline))


@contract("spowtd.simulate_rise:simulate_rise#observations", db=True,
          args={"connection": "connection", "parameters": "file", "outfile": "file", "observations_only": "bool"},
          returns="none",
          ghost_results={"g_rows": "list[tuple[real,real]]", "g_sy": "obj[spowtd.specific_yield:SpecificYield]"})
def _simulate_rise_observations(connection, parameters, outfile, observations_only):
    """C17 at the level of the command `spowtd simulate rise --observations`: the one value written is the simulated
    storage on exactly the measured master-curve levels, in ascending order of level; between any two of them it
    differs by the integral of the specific yield built from the parameter file, and its mean is the mean of the
    measured storage."""
    requires(observations_only)
    may_raise(ValueError)
    may_raise(KeyError)
    may_raise(TypeError)
    ghost(after="cursor.execute('\\n    SELECT mean_crossing_depth_mm AS dynamic_storage_mm", let="g_rows", do=lambda: cursor.fetchall())
    ghost(after="specific_yield = specific_yield_mod.create_specific_yield_function(", let="g_sy", do=lambda: specific_yield)
    ensures(dump_count() == 1)
    ensures(len(dumped(0)) == len(g_rows) and len(g_rows) >= 1)
    ensures(forall(0, len(g_rows), lambda i: forall(0, len(g_rows), lambda j:
            dumped(0)[j] - dumped(0)[i] == G_of(g_sy._spline, g_rows[j][1]) - G_of(g_sy._spline, g_rows[i][1]))))
    ensures(seq_mean(dumped(0)) == seq_mean([g_rows[k][0] for k in range(len(g_rows))]))


# --------------------------------------------------------------------------- simulate_recession (C18, the command's observation vector)

@contract("spowtd.transmissivity:create_transmissivity_function", args={"parameters": "yaml"}, returns="fn")
def _create_transmissivity_function(parameters, result):
    """ASSUMED (constructors and PyYAML are outside the subset; the classes' __call__ are proved under C15 / C16;
    validated by bounded.simulate_checks): the object returned is a function of the water level with positive values."""
    may_raise(ValueError)
    may_raise(KeyError)
    may_raise(TypeError)
    ensures(forall_real(lambda z: result(z) > 0))


@contract("spowtd.simulate_recession:simulate_recession", db=True,
          args={"connection": "connection", "parameter_file": "file"},
          returns="tuple[array[real],array[real],array[real]]",
          ghost_results={"g_rows": "list[tuple[real,real]]", "g_Q": "fn", "g_pk": "bool", "g_T": "fn", "g_T0": "fn"})
def _simulate_recession(connection, parameter_file, result):
    """C18 at the level of the command: the measured master recession curve (elapsed time in days, level in cm, ascending
    in level) is returned unchanged together with a simulated curve on exactly those levels (in mm: cm x 10) whose mean
    is the mean of the measured elapsed times and whose differences are differences of the antiderivative g_Q that
    compute_recession_curve's contract describes (integrand Sy / (-ET - curvature T), curvature in 1/km = m/km2 x 1e-3,
    ET = the query's mean over the recession intervals)."""
    # precondition on the dataset: the site curvature is not negative and some loss mechanism exists (otherwise the
    # integrand's denominator -ET - curvature T can vanish)
    requires(uf_real("site_curvature_m_km2") >= 0)
    requires(uf_real("site_curvature_m_km2") > 0 or uf_real("mean_recession_et_mm_d") > 0)
    may_raise(ValueError)
    may_raise(KeyError)
    may_raise(TypeError)
    may_raise(AssertionError)
    ghost(after="cursor.execute('\\n    SELECT CAST(elapsed_time_s AS double precision)", let="g_rows", do=lambda: cursor.fetchall())
    # units of the transmissivity handed on: m2/d -- what the constructor returns for the document's transmissivity entry,
    # times 86400 exactly when THAT entry is of the PEATCLSM kind (which gives m2/s); the kind of specific yield is irrelevant
    ghost(after="parameters = yaml.safe_load(", let="g_pk", do=lambda: parameters['transmissivity']['type'] == 'peatclsm')
    ghost(after="transmissivity_m2_s = ", let="g_T0", do=lambda: transmissivity_m2_s)
    ghost(after="transmissivity_m2_d = ", let="g_T0", do=lambda: transmissivity_m2_d)
    ghost(before="elapsed_time_d = compute_recession_curve(", let="g_T", do=lambda: transmissivity_m2_d)
    ensures(forall_real(lambda z: implies(g_pk, g_T(z) == g_T0(z) * 86400) and implies(not g_pk, g_T(z) == g_T0(z))))
    ensures(len(g_rows) >= 1 and len(result[0]) == len(g_rows) and len(result[1]) == len(g_rows) and len(result[2]) == len(g_rows))
    ensures(forall(0, len(g_rows), lambda k: result[0][k] == g_rows[k][0] and result[1][k] == g_rows[k][1]))
    ensures(seq_mean(result[2]) == seq_mean([g_rows[k][0] for k in range(len(g_rows))]))
    ensures(forall(0, len(g_rows), lambda i: forall(0, len(g_rows), lambda j:
            result[2][j] - result[2][i] == g_Q(g_rows[j][1] * 10) - g_Q(g_rows[i][1] * 10))))


@contract("spowtd.simulate_recession:dump_simulated_recession#observations", db=True,
          args={"connection": "connection", "parameter_file": "file", "outfile": "file", "observations_only": "bool"},
          returns="none", ghost_results={"g_rows": "list[tuple[real,real]]", "g_Q": "fn"})
def _dump_simulated_recession_observations(connection, parameter_file, outfile, observations_only):
    """`spowtd simulate recession --observations`: the one value written is the simulated curve of simulate_recession
    in the opposite order -- from the highest measured level to the lowest (the k-th written value belongs to the k-th
    level from the top)."""
    requires(observations_only)
    requires(uf_real("site_curvature_m_km2") >= 0)
    requires(uf_real("site_curvature_m_km2") > 0 or uf_real("mean_recession_et_mm_d") > 0)
    may_raise(ValueError)
    may_raise(KeyError)
    may_raise(TypeError)
    may_raise(AssertionError)
    ghost(after="avg_elapsed_time_d, avg_zeta_cm, elapsed_time_d = simulate_recession(", let="g_sim", do=lambda: elapsed_time_d)
    ensures(dump_count() == 1 and len(dumped(0)) == len(g_rows) and len(g_rows) >= 1)
    # it is exactly the curve simulate_recession returned (whose mean is the measured mean), last element first
    ensures(len(g_sim) == len(g_rows) and forall(0, len(g_rows), lambda k: dumped(0)[k] == g_sim[len(g_rows) - 1 - k]))
    ensures(seq_mean(g_sim) == seq_mean([g_rows[k][0] for k in range(len(g_rows))]))
    ensures(forall(0, len(g_rows), lambda i: forall(0, len(g_rows), lambda j:
            dumped(0)[len(g_rows) - 1 - j] - dumped(0)[len(g_rows) - 1 - i] == g_Q(g_rows[j][1] * 10) - g_Q(g_rows[i][1] * 10))))


@contract("spowtd.simulate_rise:simulate_rise#table", db=True,
          args={"connection": "connection", "parameters": "file", "outfile": "file", "observations_only": "bool"},
          returns="none",
          ghost_results={"g_rows": "list[tuple[real,real]]", "g_sy": "obj[spowtd.specific_yield:SpecificYield]"})
def _simulate_rise_table(connection, parameters, outfile, observations_only):
    """`spowtd simulate rise` without --observations: one table is written; after its header row, row k holds
    (water level in mm, measured storage, simulated storage) of the k-th measured level, ascending; the simulated column
    is the curve of compute_rise_curve on those levels with the measured mean."""
    requires(not observations_only)
    may_raise(ValueError)
    may_raise(KeyError)
    may_raise(TypeError)
    ghost(after="cursor.execute('\\n    SELECT mean_crossing_depth_mm AS dynamic_storage_mm", let="g_rows", do=lambda: cursor.fetchall())
    ghost(after="specific_yield = specific_yield_mod.create_specific_yield_function(", let="g_sy", do=lambda: specific_yield)
    ghost(after="W_mm = compute_rise_curve(", let="g_W", do=lambda: W_mm)
    ensures(dump_count() == 1 and len(g_rows) >= 1 and len(dumped(0)) == len(g_rows) + 1 and len(g_W) == len(g_rows))
    ensures(forall(0, len(g_rows), lambda k: len(dumped(0)[k + 1]) == 3
                   and dumped(0)[k + 1][0] == g_rows[k][1] and dumped(0)[k + 1][1] == g_rows[k][0]
                   and dumped(0)[k + 1][2] == g_W[k]))
    ensures(seq_mean(g_W) == seq_mean([g_rows[k][0] for k in range(len(g_rows))]))
    ensures(forall(0, len(g_rows), lambda i: forall(0, len(g_rows), lambda j:
            g_W[j] - g_W[i] == G_of(g_sy._spline, g_rows[j][1]) - G_of(g_sy._spline, g_rows[i][1]))))


@contract("spowtd.simulate_recession:dump_simulated_recession#table", db=True,
          args={"connection": "connection", "parameter_file": "file", "outfile": "file", "observations_only": "bool"},
          returns="none", ghost_results={"g_rows": "list[tuple[real,real]]", "g_Q": "fn"})
def _dump_simulated_recession_table(connection, parameter_file, outfile, observations_only):
    """`spowtd simulate recession` without --observations: one table; after its header row, row k holds (water level
    in MILLIMETRES, measured elapsed time, simulated elapsed time) of the k-th level from the top (D8: the first column
    used to be in cm under a 'mm' heading)."""
    requires(not observations_only)
    requires(uf_real("site_curvature_m_km2") >= 0)
    requires(uf_real("site_curvature_m_km2") > 0 or uf_real("mean_recession_et_mm_d") > 0)
    may_raise(ValueError)
    may_raise(KeyError)
    may_raise(TypeError)
    may_raise(AssertionError)
    ghost(after="avg_elapsed_time_d, avg_zeta_cm, elapsed_time_d = simulate_recession(", let="g_sim", do=lambda: elapsed_time_d)
    ensures(dump_count() == 1 and len(g_rows) >= 1 and len(dumped(0)) == len(g_rows) + 1 and len(g_sim) == len(g_rows))
    ensures(forall(0, len(g_rows), lambda k: len(dumped(0)[k + 1]) == 3
                   and dumped(0)[k + 1][0] == g_rows[len(g_rows) - 1 - k][1] * 10
                   and dumped(0)[k + 1][1] == g_rows[len(g_rows) - 1 - k][0]
                   and dumped(0)[k + 1][2] == g_sim[len(g_rows) - 1 - k]))
    ensures(seq_mean(g_sim) == seq_mean([g_rows[k][0] for k in range(len(g_rows))]))
