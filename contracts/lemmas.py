"""Lemmas (ghost code proved by the same engine; induction = a ghost loop with an invariant)."""
from pyvc.spec import *   # noqa


@spec
def run_counter(bv, c):
    """c counts, at each index, the maximal True runs of bv that have started so far."""
    return (len(c) == len(bv)
            and implies(len(bv) >= 1, c[0] == (1 if bv[0] else 0))
            and forall(1, len(bv), lambda k: c[k] == c[k - 1] + (1 if (bv[k] and not bv[k - 1]) else 0)))


@lemma(args={"bv": "array[bool]", "c": "array[int]"})
def run_counter_basic(bv, c):
    requires(run_counter(bv, c))
    ensures(forall(0, len(bv), lambda j: c[j] >= 0 and implies(bv[j], c[j] >= 1)))
    ensures(forall(0, len(bv), lambda j: forall(0, j + 1, lambda i: c[i] <= c[j])))
    loop(0, inv=lambda it: forall(0, it, lambda j: c[j] >= 0 and implies(bv[j], c[j] >= 1)))
    loop(1, inv=lambda it: forall(0, it, lambda j: forall(0, j + 1, lambda i: c[i] <= c[j])))
    for j in range(len(bv)):
        pass
    for j in range(len(bv)):
        pass


@lemma(args={"bv": "array[bool]", "c": "array[int]"})
def run_counter_separation(bv, c):
    """A False element strictly before a True one separates their run numbers."""
    requires(run_counter(bv, c))
    ensures(forall(0, len(bv), lambda j: forall(0, j, lambda k: implies(not bv[k] and bv[j], c[j] >= c[k] + 1))))
    loop(0, inv=lambda it: forall(0, it, lambda j: forall(0, j, lambda k: implies(not bv[k] and bv[j], c[j] >= c[k] + 1))))
    run_counter_basic(bv, c)
    for j in range(len(bv)):
        pass


@spec
def is_prefix_sums(a, p):
    return (len(p) == len(a) and implies(len(a) >= 1, p[0] == a[0])
            and forall(1, len(a), lambda k: p[k] == p[k - 1] + a[k]))


@lemma(args={"a": "array[int]", "p": "array[int]"})
def prefix_sums_monotone(a, p):
    """Prefix sums of a non-negative sequence are non-negative and non-decreasing."""
    requires(is_prefix_sums(a, p))
    requires(forall(0, len(a), lambda k: a[k] >= 0))
    ensures(forall(0, len(a), lambda j: p[j] >= 0))
    ensures(forall(0, len(a), lambda j: forall(0, j + 1, lambda i: p[i] <= p[j])))
    loop(0, inv=lambda it: forall(0, it, lambda j: p[j] >= 0))
    loop(1, inv=lambda it: forall(0, it, lambda j: forall(0, j + 1, lambda i: p[i] <= p[j])))
    for j in range(len(a)):
        pass
    for j in range(len(a)):
        pass


@lemma(args={"d": "array[real]", "c": "array[real]", "g": "array[real]"})
def telescoping(d, c, g):
    """Cumulative sums of consecutive differences telescope."""
    requires(len(d) == len(g) and len(d) >= 1)
    requires(len(c) == len(d) and c[0] == d[0] and forall(1, len(d), lambda k: c[k] == c[k - 1] + d[k]))
    requires(d[0] == 0 and forall(1, len(d), lambda k: d[k] == g[k] - g[k - 1]))
    ensures(forall(0, len(d), lambda j: c[j] == g[j] - g[0]))
    loop(0, inv=lambda it: forall(0, it, lambda j: c[j] == g[j] - g[0]))
    for j in range(len(d)):
        pass


@lemma(args={"w0": "array[real]", "p0": "array[real]", "w1": "array[real]", "p1": "array[real]", "c": "real"}, nonlinear="nra")
def shifted_sum(w0, p0, w1, p1, c):
    """Adding a constant c to every element adds (j + 1) c to the j-th partial sum."""
    requires(len(w0) == len(w1) and len(p0) == len(w0) and len(p1) == len(w0) and len(w0) >= 1)
    requires(p0[0] == w0[0] and forall(1, len(w0), lambda k: p0[k] == p0[k - 1] + w0[k]))
    requires(p1[0] == w1[0] and forall(1, len(w0), lambda k: p1[k] == p1[k - 1] + w1[k]))
    requires(forall(0, len(w0), lambda k: w1[k] == w0[k] + c))
    ensures(forall(0, len(w0), lambda j: p1[j] == p0[j] + (j + 1) * c))
    loop(0, inv=lambda it: forall(0, it, lambda j: p1[j] == p0[j] + (j + 1) * c))
    for j in range(len(w0)):
        pass
