"""Lemmas (ghost code proved by the same engine; induction = a ghost loop with an invariant)."""
from pyvc.spec import *   # noqa


@spec
def run_counter(bv, c):
    """c counts, at each index, the maximal True runs of bv that have started so far."""
    return (len(c) == len(bv)
            and implies(len(bv) >= 1, c[0] == (1 if bv[0] else 0))
            and forall(1, len(bv), lambda k: c[k] == c[k - 1] + (1 if (bv[k] and not bv[k - 1]) else 0)))


@lemma(args={"bv": "array[bool]", "c": "array[int]"})
def run_counter_basic(bv, c):
    requires(run_counter(bv, c))
    ensures(forall(0, len(bv), lambda j: c[j] >= 0 and implies(bv[j], c[j] >= 1)))
    ensures(forall(0, len(bv), lambda j: forall(0, j + 1, lambda i: c[i] <= c[j])))
    loop(0, inv=lambda it: forall(0, it, lambda j: c[j] >= 0 and implies(bv[j], c[j] >= 1)))
    loop(1, inv=lambda it: forall(0, it, lambda j: forall(0, j + 1, lambda i: c[i] <= c[j])))
    for j in range(len(bv)):
        pass
    for j in range(len(bv)):
        pass


@lemma(args={"bv": "array[bool]", "c": "array[int]"})
def run_counter_separation(bv, c):
    """A False element strictly before a True one separates their run numbers."""
    requires(run_counter(bv, c))
    ensures(forall(0, len(bv), lambda j: forall(0, j, lambda k: implies(not bv[k] and bv[j], c[j] >= c[k] + 1))))
    loop(0, inv=lambda it: forall(0, it, lambda j: forall(0, j, lambda k: implies(not bv[k] and bv[j], c[j] >= c[k] + 1))))
    run_counter_basic(bv, c)
    for j in range(len(bv)):
        pass
