"""Lemmas (ghost code proved by the same engine; induction = a ghost loop with an invariant)."""
from pyvc.spec import *   # noqa


@spec
def run_counter(bv, c):
    """c counts, at each index, the maximal True runs of bv that have started so far."""
    return (len(c) == len(bv)
            and implies(len(bv) >= 1, c[0] == (1 if bv[0] else 0))
            and forall(1, len(bv), lambda k: c[k] == c[k - 1] + (1 if (bv[k] and not bv[k - 1]) else 0)))


@lemma(args={"bv": "array[bool]", "c": "array[int]"})
def run_counter_basic(bv, c):
    requires(run_counter(bv, c))
    ensures(forall(0, len(bv), lambda j: c[j] >= 0 and implies(bv[j], c[j] >= 1)))
    ensures(forall(0, len(bv), lambda j: forall(0, j + 1, lambda i: c[i] <= c[j])))
    loop(0, inv=lambda it: forall(0, it, lambda j: c[j] >= 0 and implies(bv[j], c[j] >= 1)))
    loop(1, inv=lambda it: forall(0, it, lambda j: forall(0, j + 1, lambda i: c[i] <= c[j])))
    for j in range(len(bv)):
        pass
    for j in range(len(bv)):
        pass


@lemma(args={"bv": "array[bool]", "c": "array[int]"})
def run_counter_separation(bv, c):
    """A False element strictly before a True one separates their run numbers."""
    requires(run_counter(bv, c))
    ensures(forall(0, len(bv), lambda j: forall(0, j, lambda k: implies(not bv[k] and bv[j], c[j] >= c[k] + 1))))
    loop(0, inv=lambda it: forall(0, it, lambda j: forall(0, j, lambda k: implies(not bv[k] and bv[j], c[j] >= c[k] + 1))))
    run_counter_basic(bv, c)
    for j in range(len(bv)):
        pass


@spec
def is_prefix_sums(a, p):
    return (len(p) == len(a) and implies(len(a) >= 1, p[0] == a[0])
            and forall(1, len(a), lambda k: p[k] == p[k - 1] + a[k]))


@lemma(args={"a": "array[int]", "p": "array[int]"})
def prefix_sums_monotone(a, p):
    """Prefix sums of a non-negative sequence are non-negative and non-decreasing."""
    requires(is_prefix_sums(a, p))
    requires(forall(0, len(a), lambda k: a[k] >= 0))
    ensures(forall(0, len(a), lambda j: p[j] >= 0))
    ensures(forall(0, len(a), lambda j: forall(0, j + 1, lambda i: p[i] <= p[j])))
    loop(0, inv=lambda it: forall(0, it, lambda j: p[j] >= 0))
    loop(1, inv=lambda it: forall(0, it, lambda j: forall(0, j + 1, lambda i: p[i] <= p[j])))
    for j in range(len(a)):
        pass
    for j in range(len(a)):
        pass


@lemma(args={"a": "array[int]", "pa": "array[int]", "b": "array[int]", "pb": "array[int]", "k": "int"})
def point_decrement_sum(a, pa, b, pb, k):
    """Taking one off a single element takes one off every partial sum from that element on (termination measure of
    the deferred-acceptance loop: the candidates left over all storms)."""
    requires(is_prefix_sums(a, pa) and is_prefix_sums(b, pb) and len(a) == len(b))
    requires(0 <= k and k < len(a))
    requires(b[k] == a[k] - 1 and forall(0, len(a), lambda i: implies(i != k, b[i] == a[i])))
    ensures(forall(0, len(a), lambda j: pb[j] == pa[j] - (1 if j >= k else 0)))
    loop(0, inv=lambda it: forall(0, it, lambda j: pb[j] == pa[j] - (1 if j >= k else 0)))
    for j in range(len(a)):
        pass


@lemma(args={"d": "array[real]", "c": "array[real]", "g": "array[real]"})
def telescoping(d, c, g):
    """Cumulative sums of consecutive differences telescope."""
    requires(len(d) == len(g) and len(d) >= 1)
    requires(len(c) == len(d) and c[0] == d[0] and forall(1, len(d), lambda k: c[k] == c[k - 1] + d[k]))
    requires(d[0] == 0 and forall(1, len(d), lambda k: d[k] == g[k] - g[k - 1]))
    ensures(forall(0, len(d), lambda j: c[j] == g[j] - g[0]))
    loop(0, inv=lambda it: forall(0, it, lambda j: c[j] == g[j] - g[0]))
    for j in range(len(d)):
        pass


@lemma(args={"w0": "array[real]", "p0": "array[real]", "w1": "array[real]", "p1": "array[real]", "c": "real"}, nonlinear="nra")
def shifted_sum(w0, p0, w1, p1, c):
    """Adding a constant c to every element adds (j + 1) c to the j-th partial sum."""
    requires(len(w0) == len(w1) and len(p0) == len(w0) and len(p1) == len(w0) and len(w0) >= 1)
    requires(p0[0] == w0[0] and forall(1, len(w0), lambda k: p0[k] == p0[k - 1] + w0[k]))
    requires(p1[0] == w1[0] and forall(1, len(w0), lambda k: p1[k] == p1[k - 1] + w1[k]))
    requires(forall(0, len(w0), lambda k: w1[k] == w0[k] + c))
    ensures(forall(0, len(w0), lambda j: p1[j] == p0[j] + (j + 1) * c))
    loop(0, inv=lambda it: forall(0, it, lambda j: p1[j] == p0[j] + (j + 1) * c))
    for j in range(len(w0)):
        pass


# --------------------------------------------------------------------------- C02: from "no blocking pair" of the
# deferred-acceptance loop (list positions, preference values) to durations and start offsets

@spec
def gs_holds(new, old, M, s):
    """Storm s currently holds a rise: the last candidate it proposed to (same as classify.gs_matched)."""
    return len(new[s]) < len(old[s]) and old[s][len(new[s])] in M and M[old[s][len(new[s])]] == s


@spec
def gap_of(ri, ji):
    return abs((ri[1] - ri[0]) - (ji[1] - ji[0] - 1))


@lemma(args={"ri": "list[tuple[int,int]]", "ji": "list[tuple[int,int]]", "ur": "list[tuple[int,int]]", "uj": "list[tuple[int,int]]",
             "pos": "list[int]", "old": "dict[int,list[int]]", "new": "dict[int,list[int]]", "M": "dict[int,int]",
             "pref": "dict[int,dict[int,real]]", "gap": "dict[tuple[int,int],real]"})
def blocking_translation(ri, ji, ur, uj, pos, old, new, M, pref, gap):
    """`gap` is the table of signed duration differences (classify.disambiguate_matching's duration_differences).
    If the candidate lists are sorted by duration gap (best last), preferences are -|start offset|, the matching M
    is stable in find_stable_matching's sense and (ur, uj) is M read back, then no input pair (ri[k], ji[k]) blocks the
    output in the property's sense."""
    requires(len(ri) == len(ji) and len(pos) == len(ri) and len(ur) == len(uj))
    # every candidate pair sits at pos[k] on its storm's list; its gap is tabulated; its rise ranks its storm
    requires(forall(0, len(ri), lambda k: ri[k][0] in old and 0 <= pos[k] and pos[k] < len(old[ri[k][0]])
                    and old[ri[k][0]][pos[k]] == ji[k][0]))
    requires(forall(0, len(ri), lambda k: (ri[k][0], ji[k][0]) in gap and abs(gap[(ri[k][0], ji[k][0])]) == gap_of(ri[k], ji[k])))
    requires(forall(0, len(ri), lambda k: ji[k][0] in pref and ri[k][0] in pref[ji[k][0]]
                    and pref[ji[k][0]][ri[k][0]] == -abs(ji[k][0] - ri[k][0])))
    # lists sorted: the gap does not increase along a list
    requires(forall_int(lambda s: implies(s in old, forall(0, len(old[s]), lambda p: forall(0, p, lambda p0:
             abs(gap[(s, old[s][p0])]) >= abs(gap[(s, old[s][p])]))))))
    # the matching: lists only shrink from the end; a matched rise is the last one its storm proposed to; stability
    requires(forall_int(lambda s: implies(s in old, s in new and len(new[s]) <= len(old[s]))))
    requires(forall_int(lambda j: implies(j in M, M[j] in old and len(new[M[j]]) < len(old[M[j]])
                                          and old[M[j]][len(new[M[j]])] == j)))
    requires(forall_int(lambda s, p: implies(
        s in old and 0 <= p and p < len(old[s]),
        not (not (old[s][p] in M and M[old[s][p]] == s)
             and (not gs_holds(new, old, M, s) or p > len(new[s]))
             and (old[s][p] not in M or pref[old[s][p]][s] > pref[old[s][p]][M[old[s][p]]])))))
    # the output is M read back: every output pair is an input pair, matched by M; every matched rise is output
    requires(forall(0, len(ur), lambda q: uj[q][0] in M and M[uj[q][0]] == ur[q][0]
                    and exists(0, len(ri), lambda k: ur[q] == ri[k] and uj[q] == ji[k])))
    requires(forall_int(lambda j: implies(j in M, exists(0, len(ur), lambda q: uj[q][0] == j and ur[q][0] == M[j]))))
    # intervals are determined by their start
    requires(forall(0, len(ri), lambda a: forall(0, len(ri), lambda b: implies(ri[a][0] == ri[b][0], ri[a][1] == ri[b][1])
                                                 and implies(ji[a][0] == ji[b][0], ji[a][1] == ji[b][1]))))
    ensures(forall(0, len(ri), lambda k:
            exists(0, len(ur), lambda q: ur[q] == ri[k] and uj[q] == ji[k])
            or not (forall(0, len(ur), lambda q: implies(ur[q][0] == ri[k][0], gap_of(ri[k], ji[k]) < gap_of(ur[q], uj[q])))
                    and forall(0, len(ur), lambda q: implies(uj[q][0] == ji[k][0],
                                                             abs(ji[k][0] - ri[k][0]) < abs(uj[q][0] - ur[q][0]))))))
    pass
