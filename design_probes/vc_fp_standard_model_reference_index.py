from z3 import *
import time
k, s, d1, d2, d3 = Reals('k s d1 d2 d3')
u = RealVal(1)/RealVal(2**53)
K = RealVal(2**40)
step = s*(1+d1); ref = k*s*(1+d2); q = (ref/step)*(1+d3)
hyp = [s>0, -K<=k, k<=K, d1>=-u, d1<=u, d2>=-u, d2<=u, d3>=-u, d3<=u]
for name, goal in [('|q-k|<1/2', And(q-k < RealVal(1)/2, k-q < RealVal(1)/2)),
                   ('|q-k|<=1e-6 (accept test)', And(q-k <= RealVal(1)/10**6, k-q <= RealVal(1)/10**6))]:
    sol = Solver(); sol.set('timeout', 60000); sol.add(*hyp); sol.add(Not(goal))
    t=time.time(); print(name, sol.check(), time.time()-t)
# original code: int(ref/step) truncation == k ?  (truncation toward zero): need q>=k for k>=0 -> fails
sol = Solver(); sol.add(*hyp); sol.add(k==3, q < k)   # exists rounding making q<3 -> int(q)=2
print('orig truncation counterexample exists:', sol.check())
