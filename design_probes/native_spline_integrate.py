import sys; sys.path.insert(0,'/repo')
import numpy as np, yaml
import spowtd.specific_yield as SY, spowtd.spline as SP
from scipy.integrate import quad
p = yaml.safe_load(open('/repo/spowtd/test/sample_data/spline_parameters.yml'))
print(p)
sy = SY.create_specific_yield_function(dict(p['specific_yield']))
lo, hi = sy._spline.domain(); print(lo, hi)
def ref(a,b):
    pts=[x for x in (lo,hi) if min(a,b)<x<max(a,b)]
    return quad(lambda x: float(sy(x)), a, b, points=pts or None, limit=200)[0]
for a,b in [(-400,-350),(-350,-100),(-100,100),(100,300),(200,300),(300,200),(-400,300),(300,-400),(168.3,200),(hi,hi+10),(hi+1,hi+2), (-292,-291.7)]:
    print(a,b, sy.integrate(a,b), ref(a,b))
# knots
print([float(sy(z)) for z in p['specific_yield']['zeta_knots_mm']], p['specific_yield']['sy_knots'])
