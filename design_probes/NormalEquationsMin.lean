import Mathlib.LinearAlgebra.Matrix.DotProduct
import Mathlib.Data.Real.Basic
import Mathlib.Tactic

open Matrix

variable {m n : Type} [Fintype m] [Fintype n]

theorem normal_eq_min (A : Matrix m n ℝ) (b : m → ℝ) (x y : n → ℝ)
    (h : Aᵀ *ᵥ (A *ᵥ x - b) = 0) :
    (A *ᵥ x - b) ⬝ᵥ (A *ᵥ x - b) ≤ (A *ᵥ y - b) ⬝ᵥ (A *ᵥ y - b) := by
  have key : A *ᵥ y - b = (A *ᵥ x - b) + A *ᵥ (y - x) := by
    rw [Matrix.mulVec_sub]; abel
  have orth : (A *ᵥ x - b) ⬝ᵥ (A *ᵥ (y - x)) = 0 := by
    rw [Matrix.dotProduct_mulVec, ← Matrix.mulVec_transpose, h]; simp
  rw [key]
  simp only [add_dotProduct, dotProduct_add]
  rw [orth, dotProduct_comm (A *ᵥ (y - x)) (A *ᵥ x - b), orth]
  have nn : 0 ≤ (A *ᵥ (y - x)) ⬝ᵥ (A *ᵥ (y - x)) := by
    simp only [dotProduct]; exact Finset.sum_nonneg (fun i _ => mul_self_nonneg _)
  linarith
