# Hand VCs for regrid's range logic (C12) and Spline.integrate's case split (C14)
from z3 import *
import time
def prove(name, hyps, goal, to=30000):
    s=Solver(); s.set('timeout',to); s.add(*hyps); s.add(Not(goal)); t=time.time(); r=s.check()
    print(f'{name}: {"proved" if r==unsat else r} {time.time()-t:.3f}s'); return r
# ---- C12: ceil ranges.  ceil(x) = -ToInt(-x)
ceil = lambda x: -ToInt(-x)
Ya, Yb = Reals('Ya Yb'); k = Int('k')
start, stop = ceil(Ya), ceil(Yb)
in_targets = If(stop > start, And(start <= k, k < stop), And(stop <= k, k < start))   # range(start,stop) or reversed(range(stop,start))
lo, hi = If(Ya<=Yb, Ya, Yb), If(Ya<=Yb, Yb, Ya)
prove('C12 targets == integer levels in [lo,hi)', [], in_targets == And(lo <= ToReal(k), ToReal(k) < hi))
prove('C12 brentq sign-change precondition', [in_targets], (Ya-ToReal(k))*(Yb-ToReal(k)) <= 0)
xa, xb = Reals('xa xb')
root = xa + (ToReal(k)-Ya)*(xb-xa)/(Yb-Ya)
prove('C12 root lies between bracket samples', [in_targets, xa < xb], And(xa <= root, root <= xb))
# mutant: floor instead of ceil
fl = lambda x: ToInt(x)
start_m, stop_m = fl(Ya), fl(Yb)
in_m = If(stop_m > start_m, And(start_m <= k, k < stop_m), And(stop_m <= k, k < start_m))
r = prove('MUT floor: targets == levels in [lo,hi) (expect sat)', [], in_m == And(lo <= ToReal(k), ToReal(k) < hi))
# ---- C14: integrate(a,b) for a<b vs G(b)-G(a)
a,b,xmin,xmax,Slo,Shi = Reals('a b xmin xmax Slo Shi')
F = Function('F', RealSort(), RealSort())          # antiderivative of the spline on [xmin,xmax]
clamp = lambda x: If(x<xmin, xmin, If(x>xmax, xmax, x))
splint = lambda p,q: F(clamp(q)) - F(clamp(p))     # FITPACK: spline taken as zero outside its knots
Scall = lambda x: If(clamp(x)==xmin, Slo, If(clamp(x)==xmax, Shi, Real('Smid')))   # only end values are used by integrate
mn = lambda p,q: If(p<q,p,q); mx = lambda p,q: If(p>q,p,q)
t1 = If(a < xmin, Scall(xmin)*(mn(xmin,b)-a), 0)
t2 = If(b > xmin, splint(mx(a,xmin), mn(xmax,b)), 0)
t3 = If(b > xmax, Scall(mx(a,xmax))*(b-mx(a,xmax)), 0)
G = lambda x: F(clamp(x)) + Slo*mn(x-xmin,0) + Shi*mx(x-xmax,0)
prove('C14 integrate(a,b) == G(b)-G(a) for a<b', [xmin<xmax, a<b], t1+t2+t3 == G(b)-G(a))
# mutant: third term uses xmax instead of max(a,xmax)
t3m = If(b > xmax, Scall(xmax)*(b-xmax), 0)
prove('MUT C14 (expect sat)', [xmin<xmax, a<b], t1+t2+t3m == G(b)-G(a))
