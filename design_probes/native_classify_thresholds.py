import sqlite3, sys, traceback
sys.path.insert(0,'/repo')
import spowtd.load as L, spowtd.classify as C
from spowtd.test import conftest
def load(sample):
    con = sqlite3.connect(':memory:')
    with open(conftest.get_sample_file_path('precipitation', sample), encoding='utf-8-sig') as p, \
         open(conftest.get_sample_file_path('evapotranspiration', sample), encoding='utf-8-sig') as e, \
         open(conftest.get_sample_file_path('water_level', sample), encoding='utf-8-sig') as z:
        L.load_data(con, p, e, z, 'Africa/Lagos')
    return con
for sample in (1,2):
    for s,j in [(8,5),(4,5),(8,0.5),(4,8),(2,2),(1,1),(0.5,10),(10,0.1)]:
        con = load(sample)
        try:
            C.classify_intervals(con, s, j)
            n = con.execute("select count(*) from zeta_interval_storm").fetchone()[0]
            m = con.execute("select count(*) from zeta_interval where interval_type='interstorm'").fetchone()[0]
            print(sample, s, j, 'ok', n, m)
        except Exception as ex:
            tb = traceback.extract_tb(ex.__traceback__)[-1]
            print(sample, s, j, type(ex).__name__, str(ex)[:80], tb.name, tb.lineno)
