# storm-optimality invariant: no storm has been rejected by a jump it is matched to in ANY stable matching mu
from z3 import *
import time
exec(open(__import__("os").path.join(__import__("os").path.dirname(__file__),"vc_gale_shapley_invariants.py")).read().split("def prove")[0])   # reuse declarations (C, L0, isS, P, inP, states, pre, inv, cases)
def prove(name, hyps, goal, timeout=60000):
    s = Solver(); s.set('timeout', timeout); s.add(*hyps); s.add(Not(goal))
    t=time.time(); r=s.check(); print(f'{name}: {"proved" if r==unsat else r} {time.time()-t:.2f}s'); return r
common = [pre, inv(A), popped, jump_def, Lupd]
# arbitrary stable matching mu: storm->position index in its list (or -1 unmatched); muinv: jump -> storm or unmatched
mupos = Function('mupos', I, I)         # position k in C(s,.) of mu-partner, -1 if unmatched
mujm  = Function('mujm', I, B)          # jump matched in mu
muinv = Function('muinv', I, I)
s2 = Int('s2')
mu_wf = And(
  ForAll([s_], Implies(isS(s_), And(-1<=mupos(s_), mupos(s_)<L0(s_)))),
  ForAll([s_], Implies(And(isS(s_), mupos(s_)>=0), And(mujm(C(s_,mupos(s_))), muinv(C(s_,mupos(s_)))==s_))),
  ForAll([j_], Implies(mujm(j_), And(isS(muinv(j_)), mupos(muinv(j_))>=0, C(muinv(j_), mupos(muinv(j_)))==j_))),
)
mu_stable = ForAll([s_,k_], Implies(And(isS(s_), 0<=k_, k_<L0(s_), k_!=mupos(s_)),
      Not(And(k_ > mupos(s_),                                   # storm strictly prefers C(s,k) (later = better; unmatched=-1)
              Or(Not(mujm(C(s_,k_))), P(C(s_,k_), s_) > P(C(s_,k_), muinv(C(s_,k_))))))))
strict = ForAll([j_,s_,s2], Implies(And(inP(j_,s_), inP(j_,s2), s_!=s2), P(j_,s_)!=P(j_,s2)))
def optinv(st):
    L, dm, m = st['L'], st['dm'], st['m']
    # every already-proposed position k>=L(s) that is not s's current match is not mu's choice
    return ForAll([s_,k_], Implies(And(isS(s_), L(s_)<=k_, k_<L0(s_), Not(And(dm(C(s_,k_)), m(C(s_,k_))==s_))), mupos(s_)!=k_))
hy = common+[mu_wf, mu_stable, strict, optinv(A)]
for cname, case in [('new',case_new),('displace',case_displ),('reject',case_rej)]:
    prove(f'opt-preserve[{cname}]', hy+[case], optinv(Bn))
# at exit: each storm weakly prefers its result to mu(s):  result position = L(s) if matched else none; mupos(s) <= L(s) when matched; mupos=-1 when unmatched
exit_ = ForAll([x], Not(A['mt'](x)))
s0 = Int('s0')
Lf, dmf, mf = A['L'], A['dm'], A['m']
matched = And(Lf(s0)<L0(s0), dmf(C(s0,Lf(s0))), mf(C(s0,Lf(s0)))==s0)
prove('POST storm-optimal', [pre, inv(A), exit_, mu_wf, mu_stable, strict, optinv(A), isS(s0)],
      And(Implies(matched, mupos(s0)<=Lf(s0)), Implies(Not(matched), mupos(s0)==-1)))
print('--- sanity: dropping hypotheses must break proofs')
for cname, case in [('displace',case_displ),('reject',case_rej)]:
    prove(f'NO-STRICT opt-preserve[{cname}]', common+[mu_wf, mu_stable, optinv(A), case], optinv(Bn), 15000)
    prove(f'NO-STABLE opt-preserve[{cname}]', common+[mu_wf, strict, optinv(A), case], optinv(Bn), 15000)
    prove(f'FALSE from hyps[{cname}]', hy+[case], BoolVal(False), 15000)
