from z3 import *
import time
I=IntSort(); B=BoolSort()
bv = Function('bv', I, B); c = Function('c', I, I); n = Int('n')
i,j,k,l,a,v = Ints('i j k l a v')
start = lambda x: And(bv(x), Or(x==0, Not(bv(x-1))))
cdef = [n>=1, c(0)==If(start(0),1,0), ForAll([k], Implies(And(1<=k,k<n), c(k)==c(k-1)+If(start(k),1,0)), patterns=[c(k)])]
def prove(name, hyps, goal, to=30000):
    s=Solver(); s.set('timeout',to); s.add(*hyps); s.add(Not(goal)); t=time.time(); r=s.check(); print(f'{name}: {"proved" if r==unsat else r} {time.time()-t:.2f}s')
# Lemma proofs by induction (step VCs as the engine would generate from a ghost for-loop)
# L1 mono: for j from i to n-1: c[i] <= c[j]
prove('L1 step', cdef+[0<=i,i<=j,j+1<n, c(i)<=c(j)], c(i)<=c(j+1))
# L2: bv[j] => c[j]>=1 ; induction on j with IH for j-1; also c>=0
prove('L0 nonneg step', cdef+[0<=j, j+1<n, c(j)>=0], c(j+1)>=0)
prove('L2 step', cdef+[1<=j, j<n, c(j-1)>=0, Implies(bv(j-1), c(j-1)>=1)], Implies(bv(j), c(j)>=1))
prove('L2 base', cdef, Implies(bv(0), c(0)>=1))
# L3: run => equal
prove('L3 step', cdef+[0<=i,i<=j,j+1<n, ForAll([k], Implies(And(i<=k,k<=j+1), bv(k))), c(i)==c(j)], c(i)==c(j+1))
# L4: not bv[k], k<j, bv[j] => c[j]>=c[k]+1 ; induction on j, using mono
mono = ForAll([i,j], Implies(And(0<=i,i<=j,j<n), c(i)<=c(j)), patterns=[MultiPattern(c(i),c(j))])
prove('L4 step', cdef+[mono, 0<=k, k<j, j<n, Not(bv(k)), Implies(And(k<j-1, bv(j-1)), c(j-1)>=c(k)+1)], Implies(bv(j), c(j)>=c(k)+1))
# Main facts using lemmas as axioms
L2 = ForAll([j], Implies(And(0<=j,j<n,bv(j)), c(j)>=1), patterns=[c(j)])
L3 = ForAll([i,j], Implies(And(0<=i,i<=j,j<n, ForAll([k], Implies(And(i<=k,k<=j), bv(k)))), c(i)==c(j)), patterns=[MultiPattern(c(i),c(j))])
L4 = ForAll([k,j], Implies(And(0<=k,k<j,j<n,Not(bv(k)),bv(j)), c(j)>=c(k)+1), patterns=[MultiPattern(c(k),c(j))])
ax = cdef+[mono,L2,L3,L4]
inmask = lambda x: And(0<=x, x<n, bv(x), c(x)==v)
prove('mask contiguous', ax+[v>=1, inmask(i), inmask(j), i<l, l<j], inmask(l))
prove('mask maximal left', ax+[v>=1, inmask(a), a>0, bv(a-1)], inmask(a-1))
prove('mask maximal right', ax+[v>=1, inmask(a), a+1<n, bv(a+1)], inmask(a+1))
prove('masks ordered', ax+[inmask(i), 0<=j, j<n, bv(j), c(j)>v], i<j)
prove('every True covered by value>=1', ax+[0<=i,i<n,bv(i)], c(i)>=1)
# buggy original: start(0) := False  -> the in-code assert "indices.astype(bool)==bv" i.e. bv[i] => c[i]!=0 must fail
cdef_bug = [n>=1, c(0)==0, ForAll([k], Implies(And(1<=k,k<n), c(k)==c(k-1)+If(start(k),1,0)), patterns=[c(k)])]
s=Solver(); s.add(*cdef_bug); s.add(bv(0), c(0)==0); print('bug reachable (sat expected):', s.check())
