import sqlite3, sys, io
sys.path.insert(0,'/repo')
import numpy as np
np.alltrue = np.all; np.NaN = np.nan
import spowtd.load as L, spowtd.classify as C, spowtd.zeta_grid as Z, spowtd.rise as rise, spowtd.recession as rec
import spowtd.simulate_rise as SR, spowtd.simulate_recession as SRC, spowtd.set_curvature as SC, spowtd.pestfiles as PF
from spowtd.test import conftest
con = sqlite3.connect(':memory:')
with open(conftest.get_sample_file_path('precipitation', 1), encoding='utf-8-sig') as p, \
     open(conftest.get_sample_file_path('evapotranspiration', 1), encoding='utf-8-sig') as e, \
     open(conftest.get_sample_file_path('water_level', 1), encoding='utf-8-sig') as z:
    L.load_data(con, p, e, z, 'Africa/Lagos')
C.classify_intervals(con, 8, 5); Z.populate_zeta_grid(con, 1.0); rise.find_rise_offsets(con); rec.find_recession_offsets(con); SC.set_curvature(con, 1.0)
print('ET used:', con.execute("SELECT avg(evapotranspiration_mm_h) * 24 FROM evapotranspiration AS e JOIN recession_interval AS ri ON e.from_epoch = ri.start_epoch").fetchone())
print('ET interval-avg:', con.execute("""SELECT avg(evapotranspiration_mm_h) * 24 FROM evapotranspiration AS e JOIN zeta_interval zi ON e.from_epoch >= zi.start_epoch AND e.thru_epoch <= zi.thru_epoch JOIN recession_interval ri ON ri.start_epoch = zi.start_epoch""").fetchone())
out = io.StringIO(); SRC.dump_simulated_recession(con, open(conftest.get_parameter_file_path('spline')), out, False); print(out.getvalue()[:400])
out = io.StringIO(); SRC.dump_simulated_recession(con, open(conftest.get_parameter_file_path('spline')), out, True); print(out.getvalue()[:200])
out = io.StringIO(); SR.simulate_rise(con, open(conftest.get_parameter_file_path('spline')), out, True); print(out.getvalue()[:200])
out = io.StringIO(); SR.simulate_rise(con, open(conftest.get_parameter_file_path('spline')), out, False); print(out.getvalue()[:300])
out = io.StringIO(); PF.generate_curves_pestfiles(con, open(conftest.get_parameter_file_path('spline')), 'pst', None, out); s=out.getvalue(); i=s.index('* observation data'); print(s[i:i+400]); print(s[-400:])
