import sqlite3, sys, traceback, io
sys.path.insert(0,'/repo')
import numpy as np
np.alltrue = np.all
np.NaN = np.nan
import spowtd.load as L, spowtd.classify as C, spowtd.zeta_grid as Z, spowtd.rise as rise, spowtd.recession as rec
import spowtd.simulate_rise as SR, spowtd.simulate_recession as SRC, spowtd.set_curvature as SC
from spowtd.test import conftest
def load(sample):
    con = sqlite3.connect(':memory:')
    with open(conftest.get_sample_file_path('precipitation', sample), encoding='utf-8-sig') as p, \
         open(conftest.get_sample_file_path('evapotranspiration', sample), encoding='utf-8-sig') as e, \
         open(conftest.get_sample_file_path('water_level', sample), encoding='utf-8-sig') as z:
        L.load_data(con, p, e, z, 'Africa/Lagos')
    return con
for sample in (1,):
  for step in (1.0, 0.1):
    con = load(sample)
    C.classify_intervals(con, 8, 5)
    Z.populate_zeta_grid(con, step)
    print(con.execute("select min(zeta_mm), max(zeta_mm) from water_level").fetchone(), con.execute("select min(zeta_number), max(zeta_number) from discrete_zeta").fetchone())
    rise.find_rise_offsets(con)
    rec.find_recession_offsets(con)
    print(con.execute("select count(*), min(zeta_mm), max(zeta_mm) from average_rising_depth").fetchone())
    print(con.execute("select * from average_rising_depth order by zeta_mm desc limit 2").fetchall())
    print(con.execute("select count(*), min(zeta_mm), max(zeta_mm) from average_recession_time").fetchone())
    print(con.execute("select * from average_recession_time order by zeta_mm desc limit 2").fetchall())
    # reference tests
    for ref in (-37.9, -38.0, -40.0, -37.8, -100.3, -100.0):
        con2 = load(sample); C.classify_intervals(con2, 8, 5); Z.populate_zeta_grid(con2, step)
        try:
            rise.find_rise_offsets(con2, ref)
            rows = con2.execute("select * from average_rising_depth where abs(mean_crossing_depth_mm) < 1e-9").fetchall()
            print(step, ref, 'accepted; zero rows:', rows)
        except Exception as ex:
            print(step, ref, type(ex).__name__, str(ex)[:90])
