# C07 probe: rounding as uninterpreted deterministic functions; relational obligation "is_jump does not depend on the origin"
from z3 import *
import time
R = RealSort()
fdiv = Function('fdiv', R, R, R); fsub_uf = Function('fsub', R, R, R); fmul = Function('fmul', R, R, R)
B = 2**53
def fsub(x, y):
    # rounding is applied by the engine at each float op; when both operands are known to be integers
    # below 2^53 (here: terms built with ToReal from Int terms) the IEEE result is exact -> no UF
    if x.decl().kind() == Z3_OP_TO_REAL and y.decl().kind() == Z3_OP_TO_REAL:
        xi, yi = x.arg(0), y.arg(0)
        return If(And(-B<xi, xi<B, -B<yi, yi<B, -B<xi-yi, xi-yi<B), ToReal(xi-yi), fsub_uf(x,y))
    return fsub_uf(x, y)
e, c, step = Ints('e c step'); z0, z1, thr = Reals('z0 z1 thr')
# IEEE theorem used as axiom: subtraction of two integers < 2^53 whose difference is < 2^53 is exact
a, b = Ints('a b')
exact_int_sub = BoolVal(True)
rng = [0 < e, e < 2**40, 0 < e+c, e+c < 2**40, step > 0, step < 10**6]
def prove(name, hyps, goal):
    s=Solver(); s.set('timeout',20000); s.add(*hyps); s.add(Not(goal)); t=time.time(); r=s.check()
    print(f'{name}: {"proved" if r==unsat else r} {time.time()-t:.3f}s')
# current code: hour = epoch/3600.0 ; rate = (z1-z0)/(hour1-hour0) ; is_jump = rate > thr
def is_jump_cur(e0):
    h0 = fdiv(ToReal(e0), 3600); h1 = fdiv(ToReal(e0+step), 3600)
    return fdiv(fsub(z1,z0), fsub(h1,h0)) > thr
prove('CURRENT tree: is_jump(e) == is_jump(e+c)  (expect NOT provable)', [exact_int_sub]+rng, is_jump_cur(e) == is_jump_cur(e+c))
# repaired: is_jump = (z1-z0) > thr * (step/3600)   [step from exact integer difference of epochs]
def is_jump_fix(e0):
    dt = fsub(ToReal(e0+step), ToReal(e0))            # exact by the axiom
    return fsub(z1,z0) > fmul(thr, fdiv(dt, 3600))
prove('REPAIRED: is_jump(e) == is_jump(e+c)', [exact_int_sub]+rng, is_jump_fix(e) == is_jump_fix(e+c))
