import sys; sys.path.insert(0,'/repo')
import numpy as np; np.alltrue=np.all
import spowtd.fit_offsets as F
A=(np.array([0.,10.]), np.array([100.5, 80.5]))      # lone long interval: 20 levels
B=(np.array([0.,10.]), np.array([10.5, 5.5]))        # cluster of two overlapping intervals: 5+5 levels, 3 shared
C=(np.array([0.,10.]), np.array([8.5, 3.5]))
for lst in ([A,B,C],[B,C,A],[B,C]):
    try:
        idx, off, m = F.get_series_time_offsets(list(lst), 1.0); print('ok', idx, off, sorted(m))
    except Exception as ex:
        import traceback; tb=traceback.extract_tb(ex.__traceback__)[-1]; print(type(ex).__name__, ex, tb.name, tb.lineno)
