import sqlite3, sys, io, traceback, datetime as dt
sys.path.insert(0,'/repo')
import spowtd.load as L
def mk(rows, hdr): return io.StringIO(hdr+'\n'+'\n'.join(f'{t:%Y-%m-%d %H:%M:%S},{v}' for t,v in rows)+'\n')
t0=dt.datetime(2020,1,1)
def T(m): return t0+dt.timedelta(minutes=m)
E0=1577836800
def run(rain, et, wl, tz='UTC'):
    con=sqlite3.connect(':memory:')
    try:
        L.load_data(con, mk(rain,'datetime,p'), mk(et,'datetime,et'), mk(wl,'datetime,z'), tz)
    except Exception as ex:
        tb = traceback.extract_tb(ex.__traceback__)[-1]; print('REFUSED', type(ex).__name__, str(ex)[:100], tb.name, tb.lineno); return
    print('grid', [( (e-E0)//60, d) for e,d in con.execute('select epoch, data_interval from grid_time')])
    print('wl', [((e-E0)//60, round(z,3)) for e,z in con.execute('select epoch, zeta_mm from water_level')])
    print('rain', [((e-E0)//60,(t-E0)//60, v) for e,t,v in con.execute('select from_epoch, thru_epoch, rainfall_intensity_mm_h from rainfall_intensity')])
mins=list(range(0,301,30))
rain=[(T(m),float(m)) for m in mins]; et=[(T(m),0.1) for m in range(-60,400,30)]
print('--- WL 20-min, gap 100->200, starts at 10, ends 290')
wlm=[10,30,50,70,90,100+10]+[210,230,250,270,290]
wlm=[10,30,50,70,90,110,210,230,250,270,290]
run(rain, et, [(T(m), float(m)) for m in wlm])
print('--- WL row order shuffled')
run(rain, et, [(T(m), float(m)) for m in reversed(wlm)])
print('--- two gaps of different length, min step at end')
run(rain, et, [(T(m), float(m)) for m in [0,60,120,180,200,220,300]])
print('--- only one WL sample / rain outside')
run(rain, et, [(T(m), float(m)) for m in [45]])
print('--- rain non-uniform')
run([(T(m),0.) for m in [0,30,60,100,130]], et, [(T(m), float(m)) for m in wlm])
print('--- ET missing at one step')
run(rain, [(T(m),0.1) for m in range(-60,400,30) if m!=120], [(T(m), float(m)) for m in wlm])
