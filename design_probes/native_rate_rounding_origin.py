import numpy as np
# C07: rate form vs delta form at exactly-threshold increments, 20-min grid
step=1200; thr=5.0
dz = thr*(step/3600.)  # delta threshold form: dz > thr*step_h  -> False (equal)
print('delta form jump?', dz > thr*(step/3600.))
cnt=0; tot=0
for day in range(0, 4000):
    for k in range(0,72):
        e0 = 1356994800 + day*86400 + k*step
        h0=e0/3600.; h1=(e0+step)/3600.
        rate = dz/(h1-h0)
        tot+=1
        if rate>thr: cnt+=1
print(cnt, tot)
