from z3 import *
import time
R = Function('raining', IntSort(), BoolSort())
J = Function('jump', IntSort(), BoolSort())
n = Int('n')
def NotMyst(k_):
    r = FreshInt('r'); q = FreshInt('q')
    return Exists([r], And(0<=r, r<=k_, R(r), ForAll([q], Implies(And(r<q,q<=k_), And(Not(R(q)), Not(J(q)))))))
i = Int('i'); st = Bool('st'); st2 = Bool('st2')
M = Function('mask', IntSort(), BoolSort())
M2 = Function('mask2', IntSort(), BoolSort())
kk = Int('kk')
inv = lambda i_, st_, M_: And(0<=i_, i_<=n, st_ == Not(NotMyst(i_-1)), ForAll([kk], Implies(And(0<=kk, kk<i_), M_(kk)==Not(NotMyst(kk)))))
body = And(st2 == If(R(i), False, If(J(i), True, st)),
           ForAll([kk], M2(kk) == If(kk==i, st2, M(kk))))
for solver_name in ['z3']:
    s = Solver(); s.set('timeout', 20000)
    s.add(n>=0, inv(i, st, M), i<n, body, Not(inv(i+1, st2, M2)))
    t=time.time(); print('preservation:', s.check(), time.time()-t)
    s = Solver(); s.add(n>=0, Not(inv(0, True, M)))
    print('init:', s.check())
    # C04-form post
    x = Int('x'); r=Int('r'); q=Int('q')
    spec = And(Not(R(x)), Exists([r], And(0<=r, r<x, R(r), ForAll([q], Implies(And(r<q,q<=x), And(Not(R(q)), Not(J(q))))))))
    s = Solver(); s.set('timeout', 20000)
    s.add(0<=x, x<n, M(x)==Not(NotMyst(x)), Not((And(Not(M(x)), Not(R(x)))) == spec))
    t=time.time(); print('post:', s.check(), time.time()-t)
    # the two in-code asserts
    s = Solver(); s.set('timeout', 20000)
    s.add(0<=x, x<n, M(x)==Not(NotMyst(x)), R(x), M(x)); print('assert1:', s.check())
    s = Solver(); s.set('timeout', 20000)
    s.add(0<=x, x<n, M(x)==Not(NotMyst(x)), Not(R(x)), J(x), Not(M(x))); print('assert2:', s.check())
    # mutation: start state False  -> init must fail
    s = Solver(); s.add(n>=0, Not(inv(0, False, M))); print('mut init (expect sat):', s.check())
    # mutation: jump resets even when raining
    body_m = And(st2 == If(J(i), True, If(R(i), False, st)), ForAll([kk], M2(kk) == If(kk==i, st2, M(kk))))
    s = Solver(); s.set('timeout', 20000)
    s.add(n>=0, inv(i, st, M), i<n, body_m, Not(inv(i+1, st2, M2)))
    t=time.time(); r_=s.check(); print('mut preservation (expect sat):', r_, time.time()-t)
    if r_==sat:
        m=s.model(); print(m.eval(i), m.eval(n))
