import sqlite3, sys, io, traceback, datetime as dt
sys.path.insert(0,'/repo')
import spowtd.load as L, spowtd.classify as C
def mk(rows, hdr): return io.StringIO(hdr+'\n'+'\n'.join(f'{t:%Y-%m-%d %H:%M:%S},{v}' for t,v in rows)+'\n')
t0=dt.datetime(2020,1,1)
def T(m): return t0+dt.timedelta(minutes=m)
def run(rain, et, wl, s=4.0, j=8.0, tz='UTC'):
    con=sqlite3.connect(':memory:')
    L.load_data(con, mk(rain,'datetime,p'), mk(et,'datetime,et'), mk(wl,'datetime,z'), tz)
    print('grid', con.execute('select epoch-1577836800, data_interval from grid_time').fetchall())
    print('wl', con.execute('select epoch-1577836800, zeta_mm from water_level').fetchall())
    try:
        C.classify_intervals(con, s, j); print('classified ok')
        print(con.execute('select start_epoch-1577836800, thru_epoch-1577836800 from storm').fetchall(), con.execute('select start_epoch-1577836800, interval_type, thru_epoch-1577836800 from zeta_interval').fetchall())
    except Exception as ex:
        tb = traceback.extract_tb(ex.__traceback__)[-1]; print('CRASH', type(ex).__name__, str(ex)[:100], tb.name, tb.lineno)
    return con
mins=list(range(0,301,30))
rain=[(T(m),0.0) for m in mins]; et=[(T(m),0.1) for m in mins+[330]]
print('--- isolated single sample between gaps')
run(rain, et, [(T(m), -100.0) for m in (0,30,60,180,270,300)])
print('--- storm at end of record overlapping a jump')
rain2=[(T(m), 10.0 if m>=240 else 0.0) for m in mins]
wl2=[(T(m), -100.0 + (20.0*(m-210)/30 if m>=240 else 0)) for m in mins]
run(rain2, et, wl2)
print('--- record starting in rain')
rain3=[(T(m), 10.0 if m<=30 else 0.0) for m in mins]
wl3=[(T(m), -100.0 + min(m,90)/30*20.0) for m in mins]
run(rain3, et, wl3)
print('--- displaced storm with exhausted list')
