import sqlite3
con = sqlite3.connect(':memory:')
con.executescript(open('/repo/spowtd/schema.sql').read())
names = {v:k for k,v in vars(sqlite3).items() if k.startswith('SQLITE_') and isinstance(v,int) and k in ('SQLITE_READ','SQLITE_INSERT','SQLITE_UPDATE','SQLITE_DELETE','SQLITE_SELECT','SQLITE_TRANSACTION','SQLITE_CREATE_TABLE','SQLITE_PRAGMA','SQLITE_FUNCTION')}
log=[]
def auth(action, a1, a2, db, src):
    log.append((names.get(action, action), a1, a2, src)); return sqlite3.SQLITE_OK
con.set_authorizer(auth)
for sql in ["""SELECT avg(evapotranspiration_mm_h) * 24 FROM evapotranspiration AS e JOIN recession_interval AS ri ON e.from_epoch = ri.start_epoch""",
            """SELECT total_depth_mm FROM storm_total_rain_depth WHERE storm_start_epoch = :storm_start_epoch""",
            """INSERT INTO storm (start_epoch, thru_epoch) SELECT :start_epoch, :thru_epoch"""]:
    log.clear()
    con.execute('EXPLAIN '+sql, {'storm_start_epoch':1,'start_epoch':1,'thru_epoch':2})
    reads = sorted({(a,b) for (n,a,b,s) in log if n=='SQLITE_READ'}); writes=[(n,a) for (n,a,b,s) in log if n in('SQLITE_INSERT','SQLITE_UPDATE','SQLITE_DELETE')]
    print(sql.split()[0:6], '\n  reads', reads, '\n  writes', writes)
