# Hand-written VCs (as the generator would emit) for the *fixed* find_stable_matching loop.
from z3 import *
import time
I = IntSort(); B = BoolSort()
C   = Function('C', I, I, I)        # C(s,k): k-th candidate of storm s (ghost: initial list contents; lists only shrink from the end)
L0  = Function('L0', I, I)          # initial lengths
isS = Function('isS', I, B)         # s in dom(storm_candidates)
P   = Function('P', I, I, RealSort())   # pref(j, s)
inP = Function('inP', I, I, B)      # s in dom(jump_preferences[j])

def state(tag):
    return dict(L=Function('L'+tag, I, I), mt=Function('mt'+tag, I, B),      # matchable set
                dm=Function('dm'+tag, I, B), m=Function('m'+tag, I, I))     # matches: domain, value
s_, k_, k2_, j_, j2_ = Ints('s_ k_ k2_ j_ j2_')
pre = And(
    ForAll([s_], Implies(isS(s_), L0(s_) >= 0)),
    ForAll([s_,k_], Implies(And(isS(s_), 0<=k_, k_<L0(s_)), inP(C(s_,k_), s_))),           # consistency
    ForAll([s_,k_,k2_], Implies(And(isS(s_), 0<=k_, k_<k2_, k2_<L0(s_)), C(s_,k_) != C(s_,k2_))),  # distinct candidates
)
def inv(st):
    L, mt, dm, m = st['L'], st['mt'], st['dm'], st['m']
    return And(
      ForAll([s_], Implies(isS(s_), And(0<=L(s_), L(s_)<=L0(s_)))),
      ForAll([s_], Implies(mt(s_), And(isS(s_), L(s_)>0))),                                   # I1
      ForAll([j_], Implies(dm(j_), And(isS(m(j_)), Not(mt(m(j_))),                             # I2
                                        L(m(j_)) < L0(m(j_)), C(m(j_), L(m(j_))) == j_))),     # I4: matched to last popped
      ForAll([s_,k_], Implies(And(isS(s_), L(s_)<=k_, k_<L0(s_)),                              # I3
                              And(dm(C(s_,k_)), P(C(s_,k_), m(C(s_,k_))) >= P(C(s_,k_), s_)))),
      ForAll([s_], Implies(isS(s_), Or(mt(s_), L(s_)==0, And(L(s_)<L0(s_), dm(C(s_,L(s_))), m(C(s_,L(s_)))==s_)))),  # I5
    )
A = state('a'); Bn = state('b')
storm, jump = Ints('storm jump')
x = Int('x')
# loop body (fixed code), as relation A -> Bn
La, mta, dma, ma = A['L'], A['mt'], A['dm'], A['m']
Lb, mtb, dmb, mb = Bn['L'], Bn['mt'], Bn['dm'], Bn['m']
popped = And(mta(storm))                                  # storm = matchable.pop()
jump_def = jump == C(storm, La(storm)-1)                   # jump = cand[storm].pop()
Lupd = ForAll([x], Lb(x) == If(x==storm, La(x)-1, La(x)))
old = ma(jump)
better = P(jump, storm) > P(jump, old)
# three outcomes
case_new   = And(Not(dma(jump)),
                 ForAll([x], dmb(x) == Or(x==jump, dma(x))), ForAll([x], mb(x) == If(x==jump, storm, ma(x))),
                 ForAll([x], mtb(x) == And(mta(x), x!=storm)))
case_displ = And(dma(jump), better,
                 ForAll([x], dmb(x) == dma(x)), ForAll([x], mb(x) == If(x==jump, storm, ma(x))),
                 # fixed: displaced storm re-queued only if it still has candidates
                 ForAll([x], mtb(x) == Or(And(mta(x), x!=storm), And(x==old, Lb(old)>0))))
case_rej   = And(dma(jump), Not(better),
                 ForAll([x], dmb(x) == dma(x)), ForAll([x], mb(x) == ma(x)),
                 ForAll([x], mtb(x) == Or(And(mta(x), x!=storm), And(x==storm, Lb(storm)>0))))
def prove(name, hyps, goal, timeout=60000):
    s = Solver(); s.set('timeout', timeout); s.add(*hyps); s.add(Not(goal))
    t=time.time(); r=s.check(); print(f'{name}: {"proved" if r==unsat else r} {time.time()-t:.2f}s'); return r
common = [pre, inv(A), popped, jump_def, Lupd]
# safety obligations inside body
prove('assert storm_candidates[storm] nonempty', [pre, inv(A), popped], La(storm) > 0)
prove('jump_preferences[jump][storm] key exists', common, inP(jump, storm))
prove('jump_preferences[jump][matches[jump]] key exists', common+[dma(jump)], inP(jump, old))
prove('assert matches[jump] not in matchable', common+[dma(jump), better], Not(mta(old)))
goals = inv(Bn).children()
for cname, case in [('new',case_new),('displace',case_displ),('reject',case_rej)]:
    for gi, g in enumerate(goals):
        prove(f'preserve[{cname}] conj{gi}', common+[case], g)
print('--- vacuity / mutation checks')
for cname, case in [('new',case_new),('displace',case_displ),('reject',case_rej)]:
    s = Solver(); s.set('timeout', 30000); s.add(*common, case); print('hyps satisfiable', cname, s.check())
# original code: displaced storm re-queued unconditionally -> I1 must fail
case_displ_orig = And(dma(jump), better,
                 ForAll([x], dmb(x) == dma(x)), ForAll([x], mb(x) == If(x==jump, storm, ma(x))),
                 ForAll([x], mtb(x) == Or(And(mta(x), x!=storm), x==old)))
for gi, g in enumerate(goals):
    prove(f'ORIG preserve[displace] conj{gi}', common+[case_displ_orig], g)
# mutation: >= instead of > in acceptance: should still be stable? (weakly) -- check what breaks
better_m = P(jump, storm) >= P(jump, old)
case_displ_m = substitute(case_displ, (better, better_m))
for gi, g in enumerate(goals):
    prove(f'MUT>= preserve[displace] conj{gi}', common+[case_displ_m], g)
# mutation: pop worst first (pop(0))  -> I4/I5 break
# post: stability at exit
Lf, mtf, dmf, mf = A['L'], A['mt'], A['dm'], A['m']
exit_ = ForAll([x], Not(mtf(x)))
s0, k0 = Ints('s0 k0')
j0 = C(s0,k0)
cand_pair = And(isS(s0), 0<=k0, k0<L0(s0))
sorted_ax = ForAll([s_,k_,k2_], Implies(And(isS(s_), 0<=k_, k_<=k2_, k2_<L0(s_)), True))  # placeholder
# storm's rank of jump = position k in list (higher better). storm matched to C(s,L(s)) if L(s)<L0(s) and m(C(s,L(s)))==s
storm_matched = And(Lf(s0)<L0(s0), dmf(C(s0,Lf(s0))), mf(C(s0,Lf(s0)))==s0)
storm_cur_rank = Lf(s0)
blocking = And(cand_pair, Not(And(dmf(j0), mf(j0)==s0)),
               Or(Not(storm_matched), k0 > storm_cur_rank),     # storm unmatched or strictly prefers j0 (by list position)
               Or(Not(dmf(j0)), P(j0, s0) > P(j0, mf(j0))))     # jump unmatched or strictly prefers s0
prove('POST stability (by list position)', [pre, inv(A), exit_], Not(blocking))
# injectivity
j1, j2 = Ints('j1 j2')
prove('POST injective', [pre, inv(A), exit_], Implies(And(dmf(j1), dmf(j2), j1!=j2), mf(j1)!=mf(j2)))
prove('POST matched pairs are candidates', [pre, inv(A), exit_], Implies(dmf(j1), Exists([k_], And(0<=k_, k_<L0(mf(j1)), C(mf(j1),k_)==j1))))
