import sys, inspect; sys.path.insert(0,'/repo')
import spowtd.classify as C
src = inspect.getsource(C.find_stable_matching).replace('matchable_storms.append(storm)','matchable_storms.add(storm)')
ns = {}; exec(src, ns); f = ns['find_stable_matching']
# storm 1 has single candidate jump 10; storm 2 has candidates [20 (worse), 10 (best)]; jump 10 prefers storm 2
for order in range(3):
    try:
        print(f({1:[10], 2:[20,10]}, {10:{1:-5, 2:-1}, 20:{2:-3}}))
    except AssertionError as ex:
        import traceback; print('AssertionError at line', traceback.extract_tb(ex.__traceback__)[-1].lineno, '(assert storm_candidates[storm])')
