"""Bounded stand-ins at workflow level (real CLI / step functions on synthetic datasets generated
from a planted truth): C06 planted master curves recovered, C07 time-origin independence, C09
reference level, C13 traceability of master-curve rows.

Planted truth: one recession curve given on the sampling lattice (level after j steps of
recession, piecewise linear in between) and a constant specific yield; every interstorm interval
is a piece of that curve, every storm lifts the water level along the storage line
storage = Sy * level.  Storm ends always land on lattice points of the recession curve, so the
truth is exactly representable."""
import io
import os
import random
import shutil
import sqlite3
import sys
import tempfile
import traceback

import numpy as np

from pyvc import pipeline

STEP = 1800


def _mods(repo):
    if repo not in sys.path:
        sys.path.insert(0, repo)
    import importlib
    return {n: importlib.import_module("spowtd." + n) for n in
            ("load", "classify", "zeta_grid", "rise", "recession", "user_interface", "fit_offsets")}


def planted(seed, n_events=4, sy=0.8, drop=(0.35, 0.9), weak=False, wiggle=False):
    """Returns dict(rain, et, wl, truth) — lists of (epoch, value).  Every planted storm is a storm for the thresholds the
    stand-ins use (4 mm/h rain, 8 mm/h rise): a draw with a weaker one (possible near the top of the master curve) is
    rejected and redrawn from a derived seed, so that the planted ranges are a valid oracle."""
    for attempt in range(2000):
        d = _planted(seed if attempt == 0 else seed * 1000003 + attempt, n_events, sy, drop, weak, wiggle)
        if d is None:
            continue
        # weak=True: one storm of varying intensity (7.2, 12, 7.2 mm/h with rises of 9, 15, 9 mm/h): a storm for the
        # thresholds used (4 mm/h rain, 8 mm/h rise), but cut to its middle step if the two thresholds are mixed up
        if all(len(ev) > 5 or (ev[3] - ev[2]) / ev[1] >= 6.0 for ev in d["events"] if ev[0] == "storm"):
            return d
    raise RuntimeError("no admissible planted dataset for seed %r" % seed)


def _planted(seed, n_events=4, sy=0.8, drop=(0.35, 0.9), weak=False, wiggle=False):
    rng = random.Random(seed)
    # master recession curve on the lattice: strictly decreasing, slowing down
    zr = [60.0]
    for j in range(400):
        zr.append(zr[-1] - (drop[1] - (drop[1] - drop[0]) * min(1.0, j / 150.0)))
    t = 0
    pos = rng.randint(0, 20)            # index on the master curve
    rain, wl = [], []
    events = []
    ranges = {"storm": [], "interstorm": []}       # planted level ranges of the rises / recessions (for the oracle)
    def emit(level, r):
        nonlocal t
        wl.append((pipeline.E0 + t * STEP, level))
        rain.append((pipeline.E0 + t * STEP, r))
        t += 1
    # initial recession needs some rain earlier in the record (C04): start with a storm
    first = True
    for ev in range(n_events):
        # storm: s steps, ends at master index `target` < pos (higher level)
        s = rng.randint(1, 3)
        if first:
            start_level = zr[pos + rng.randint(8, 15)]
            first = False
        else:
            start_level = cur
        target = max(0, pos - rng.randint(6, 14)) if ev else pos
        rise = zr[target] - start_level
        weights = None
        if weak and ev == 1:
            # total rise between 15 and 18 mm, split 6 : 10 : 6
            cands = [t for t in range(0, pos) if 15.0 < zr[t] - start_level < 18.0]
            if not cands:
                return None
            target = rng.choice(cands)
            rise = zr[target] - start_level
            s, weights = 3, (6.0, 10.0, 6.0)
        elif rise <= 6.0 * s:            # keep every increment well above the jump threshold
            target = max(0, target - 10)
            rise = zr[target] - start_level
        inc = rise / s
        intensity = inc * sy / (STEP / 3600.0)
        lvl = start_level
        for k in range(s):
            step_inc = inc if weights is None else rise * weights[k] / sum(weights)
            emit(lvl, step_inc * sy / (STEP / 3600.0))
            lvl += step_inc
        pos = target
        events.append(("storm", s, start_level, zr[target], intensity) + (("varying",) if weights else ()))
        ranges["storm"].append((start_level, zr[target]))
        # one drizzle step (rain above zero but below the storm threshold, level unchanged): the
        # sample that ends the last big increment is rainy, so the recession that follows is clean
        emit(zr[pos], 0.5)
        # recession of m samples along the master curve, starting at the storm's end level
        m = rng.randint(5, 12)
        for j in range(m):
            # wiggle: the second recession creeps back up once (by less than the rise threshold), so that it crosses some
            # grid levels three times -- only meaningful for the stand-ins that do not compare with the planted curve
            emit(zr[pos + 1] if (wiggle and ev == 1 and j == 3 and m >= 6) else zr[pos + j], 0.0)
        ranges["interstorm"].append((zr[pos + m - 1], zr[pos]))
        pos = pos + m
        cur = zr[pos]
        events.append(("recession", m))
    emit(cur, 0.0)
    et = [(pipeline.E0 + k * STEP, 0.1) for k in range(-1, t + 2)]
    return {"rain": rain, "et": et, "wl": wl, "truth": {"zr": zr, "sy": sy}, "events": events, "ranges": ranges, "wiggle": wiggle}


def with_gap(data):
    """The same dataset with three consecutive water-level samples removed from the middle of its first recession of at least
    seven samples (rainfall and ET untouched); None if there is no such recession."""
    idx = 0
    for ev in data["events"]:
        if ev[0] == "storm":
            idx += ev[1] + 1
        else:
            if ev[1] >= 7 and idx + ev[1] < len(data["wl"]) - 4:
                d = dict(data)
                d["wl"] = data["wl"][:idx + 2] + data["wl"][idx + 5:]
                d.pop("ranges", None)       # the planted level ranges describe the record without the hole: the oracle for
                return d                    # "nothing to align" must then read the tables (shared_levels)
            idx += ev[1]
    return None


def workflow(repo, data, grid_mm, ref=None, shift=0, tz="UTC", cli=False, steps=("rise", "recession")):
    m = _mods(repo)
    rain = [(e + shift, v) for e, v in data["rain"]]
    et = [(e + shift, v) for e, v in data["et"]]
    wl = [(e + shift, v) for e, v in data["wl"]]
    if cli:
        d = tempfile.mkdtemp(prefix="spowtd_verif_")
        try:
            paths = {}
            for name, rows, hdr in (("p", rain, "datetime,p"), ("e", et, "datetime,et"), ("z", wl, "datetime,z")):
                paths[name] = os.path.join(d, name + ".txt")
                with open(paths[name], "w") as f:
                    f.write(pipeline.textfile(rows, hdr).getvalue())
            db = os.path.join(d, "db.sqlite3")
            main = m["user_interface"].main
            main(["load", db, "-p", paths["p"], "-e", paths["e"], "-z", paths["z"], "--timezone", tz])
            main(["classify", db, "-s", "4", "-j", "8"])
            main(["set-zeta-grid", db, "-d", repr(grid_mm)])
            for st in steps:
                main([st, db] + (["-r", repr(ref)] if ref is not None else []))
            con = sqlite3.connect(":memory:")
            src = sqlite3.connect(db)
            src.backup(con)
            src.close()
            return con
        finally:
            shutil.rmtree(d, ignore_errors=True)
    con = pipeline.load(repo, rain, et, wl, tz)
    m["classify"].classify_intervals(con, 4.0, 8.0)
    m["zeta_grid"].populate_zeta_grid(con, grid_mm)
    if "rise" in steps:
        m["rise"].find_rise_offsets(con, ref)
    if "recession" in steps:
        m["recession"].find_recession_offsets(con, ref)
    return con


def curves(con):
    rise = con.execute("SELECT zeta_mm, mean_crossing_depth_mm FROM average_rising_depth ORDER BY zeta_mm").fetchall()
    rec = con.execute("SELECT zeta_mm, elapsed_time_s FROM average_recession_time ORDER BY zeta_mm").fetchall()
    return rise, rec


# ----------------------------------------------------------------------------- C06

def truth_time(zr, z):
    """Elapsed time (steps) on the planted recession curve at level z (piecewise linear)."""
    for j in range(len(zr) - 1):
        if zr[j + 1] <= z <= zr[j]:
            return j + (zr[j] - z) / (zr[j] - zr[j + 1])
    raise ValueError(z)


def shared_levels(con, interval_type, grid, planted_ranges=None):
    """Independent lower bound on the size of a master curve: the number of grid levels lying strictly between the
    lowest and highest water level of at least two intervals of the given type (from zeta_interval and water_level
    only).  A master curve with fewer levels than that is missing something; with a coarse grid a curve of fewer
    than two levels is legitimate and says nothing about C06."""
    import math
    ranges = []
    if planted_ranges is not None:
        # independent of spowtd altogether: the level ranges the generator planted
        ranges = [(min(a, b), max(a, b)) for a, b in planted_ranges[interval_type]]
        con = None
    for a, b in (con.execute("SELECT start_epoch, thru_epoch FROM zeta_interval WHERE interval_type = ?", (interval_type,)).fetchall() if con is not None else []):
        z = [r[0] for r in con.execute("SELECT zeta_mm FROM water_level WHERE epoch >= ? AND epoch <= ?", (a, b))]
        if len(z) >= 2:
            ranges.append((min(z), max(z)))
    if not ranges:
        return 0
    lo = math.floor(min(r[0] for r in ranges) / grid)
    hi = math.ceil(max(r[1] for r in ranges) / grid)
    at = {k: [i for i, (a, b) in enumerate(ranges) if a < k * grid < b] for k in range(lo, hi + 1)}
    at = {k: v for k, v in at.items() if len(v) >= 2}
    # only the largest group of intervals connected through shared levels is kept (C08); with ties the choice is
    # unspecified, so take the smallest level count among the groups with the most intervals
    parent = list(range(len(ranges)))

    def find(i):
        while parent[i] != i:
            parent[i] = parent[parent[i]]
            i = parent[i]
        return i
    for v in at.values():
        for i in v[1:]:
            parent[find(i)] = find(v[0])
    groups = {}
    for k, v in at.items():
        g = groups.setdefault(find(v[0]), [set(), 0])
        g[0].update(v)
        g[1] += 1
    if not groups:
        return 0
    most = max(len(g[0]) for g in groups.values())
    return min(g[1] for g in groups.values() if len(g[0]) == most)


def nothing_to_assemble(repo, data, grid, kind, cli=False):
    """True when, by the independent oracle, no grid level is shared by two intervals of the step `kind`: the step
    then has nothing to align and refuses; the master-curve properties say nothing about such a dataset."""
    if data.get("ranges"):
        return shared_levels(None, "storm" if kind == "rise" else "interstorm", grid, data["ranges"]) == 0
    try:
        pre = workflow(repo, data, grid, cli=cli, steps=())
    except Exception:
        return False
    return shared_levels(pre, "storm" if kind == "rise" else "interstorm", grid) == 0


def run_C06(repo, tier, seed):
    ev = 0
    uninformative = 0
    failures, samples = [], []
    cases = [(seed * 100 + k, g) for k in range(2 if tier == "quick" else 12) for g in ((1.0, 0.5) if tier == "quick" else (1.0, 0.5, 2.5))]
    cases = cases + [(-(seed * 100 + 1), 1.0)]          # negative: the dataset with one weak storm (weak=True)
    for s, grid in cases:
        data = planted(s) if s >= 0 else planted(-s, weak=True)
        case = {"planted_seed": s, "grid_step_mm": grid, "events": data["events"][:6]}
        try:
            con = workflow(repo, data, grid, cli=True)
        except SystemExit as e:
            failures.append({"key": "cli-exit", "input": case, "observed": "CLI exited with %r" % (e.code,)})
            continue
        except Exception as e:
            tb = traceback.extract_tb(e.__traceback__)[-1]
            what = "%s: %s (%s:%d)" % (type(e).__name__, e, tb.name, tb.lineno)
            # a step may refuse when no grid level is shared by two of its intervals (nothing to assemble: C06 says
            # nothing then); find the step that raised and ask the independent oracle
            con = None
            try:
                need = {"rise": shared_levels(None, "storm", grid, data["ranges"]),
                        "recession": shared_levels(None, "interstorm", grid, data["ranges"])}
                ok_steps, added = [], False
                for stp in ("rise", "recession"):
                    try:
                        workflow(repo, data, grid, cli=True, steps=(stp,))
                        ok_steps.append(stp)
                    except Exception:
                        if need[stp] >= 1:
                            failures.append({"key": "raised-" + type(e).__name__, "input": dict(case, step=stp), "observed": what})
                            added = True
                if len(ok_steps) < 2 and not added:
                    uninformative += 1
                    con = workflow(repo, data, grid, cli=True, steps=tuple(ok_steps))
            except Exception as e2:
                failures.append({"key": "raised-" + type(e).__name__, "input": case, "observed": what})
            if con is None:
                continue
        ev += 1
        rise, rec = curves(con)
        zr, sy = data["truth"]["zr"], data["truth"]["sy"]
        # recession master curve = truth up to a constant
        if len(rec) >= 2:
            d = [t / STEP - truth_time(zr, z) for z, t in rec]
            if max(d) - min(d) > 1e-6 * max(1.0, max(abs(x) for x in d)):
                failures.append({"key": "recession-master-curve", "input": case,
                                 "observed": "elapsed time minus planted curve is not constant: spread %r steps" % (max(d) - min(d))})
        elif shared_levels(None, "interstorm", grid, data["ranges"]) >= 2:
            failures.append({"key": "no-recession-curve", "input": case,
                             "observed": "fewer than two levels in the recession master curve although at least two grid levels are shared within the main group of overlapping recession intervals"})
        if len(rise) >= 2:
            d = [w - sy * z for z, w in rise]
            if max(d) - min(d) > 1e-6 * max(1.0, max(abs(x) for x in d)):
                failures.append({"key": "rise-master-curve", "input": case,
                                 "observed": "storage minus Sy*level is not constant: spread %r mm" % (max(d) - min(d))})
        elif shared_levels(None, "storm", grid, data["ranges"]) >= 2:
            failures.append({"key": "no-rise-curve", "input": case,
                             "observed": "fewer than two levels in the rise master curve although at least two grid levels are shared within the main group of overlapping storm rises"})
        # aligned pieces coincide wherever they overlap
        for tbl, col, off in (("recession_interval_zeta", "mean_crossing_time", "time_offset_s"), ("rising_interval_zeta", "mean_crossing_depth_mm", "rain_depth_offset_mm")):
            rows = con.execute("SELECT zeta_number, %s + %s FROM %s JOIN %s USING (start_epoch)" % (col, off, tbl, tbl.replace("_zeta", ""))).fetchall()
            by = {}
            for k, v in rows:
                by.setdefault(k, []).append(v)
            spread = max((max(v) - min(v) for v in by.values()), default=0.0)
            scale = max((abs(x) for v in by.values() for x in v), default=1.0)
            if spread > 1e-6 * max(1.0, scale):
                failures.append({"key": "pieces-coincide-" + tbl, "input": case, "observed": "aligned pieces differ by %r at a shared level" % spread})
        if len(samples) < 2:
            samples.append(case)
        if len(failures) >= 3:
            break
    return {"bound": "%d planted datasets (4 storm/recession events each) x grid steps, through the real CLI (%d of them with a step refusing "
                     "because no grid level is shared by two of its intervals)" % (len(cases), uninformative),
            "evaluations": ev, "distinct": len(cases), "exhaustive": False, "failures": failures[:3], "samples": samples}


# ----------------------------------------------------------------------------- C07

def snapshot(con, shift):
    out = {}
    out["flags"] = [(e - shift, a, b, c) for e, a, b, c in con.execute("SELECT start_epoch, is_jump, is_mystery_jump, is_interstorm FROM grid_time_flags ORDER BY 1")]
    out["storm"] = [(a - shift, b - shift) for a, b in con.execute("SELECT start_epoch, thru_epoch FROM storm ORDER BY 1")]
    out["zi"] = [(a - shift, t, b - shift) for a, t, b in con.execute("SELECT start_epoch, interval_type, thru_epoch FROM zeta_interval ORDER BY 1, 2")]
    out["pairs"] = [(a - shift, b - shift) for a, b in con.execute("SELECT interval_start_epoch, storm_start_epoch FROM zeta_interval_storm ORDER BY 1")]
    out["rise"], out["rec"] = curves(con)
    return out


def run_C07(repo, tier, seed):
    ev = 0
    failures, samples = [], []
    rng = random.Random(seed)
    for k in range(2 if tier == "quick" else 10):
        data = planted(seed * 50 + k)
        # add increments exactly at threshold x step on a 20-minute grid variant
        for step, name in ((STEP, "30min"), (1200, "20min")):
            d2 = data
            if step != STEP:
                conv = lambda rows: [(pipeline.E0 + ((e - pipeline.E0) // STEP) * step, v) for e, v in rows]
                d2 = {"rain": conv(data["rain"]), "et": [(pipeline.E0 + j * step, 0.1) for j in range(-1, len(data["rain"]) + 3)], "wl": conv(data["wl"])}
                # an increment exactly equal to threshold x step on a dry step: 8 mm/h x (1/3 h)
                wl = list(d2["wl"])
                j = len(wl) - 3
                wl[j + 1] = (wl[j + 1][0], wl[j][1] + 8.0 * step / 3600.0)
                wl[j + 2] = (wl[j + 2][0], wl[j + 1][1] - 0.3)
                # ... and one on a rainy step: the first increment of a storm of at least two steps is set to exactly
                # threshold x step (the rest of the rise goes to its second step), so that the rise test of the storm
                # matching -- not only the interstorm flags -- sits on the boundary
                idx = 0
                for evt in data["events"]:
                    if evt[0] == "storm":
                        if evt[1] >= 2 and idx + 1 < j:
                            wl[idx + 1] = (wl[idx + 1][0], wl[idx][1] + 8.0 * step / 3600.0)
                            break
                        idx += evt[1] + 1
                    else:
                        idx += evt[1]
                d2["wl"] = wl
            case = {"planted_seed": seed * 50 + k, "grid": name}
            try:
                base = snapshot(workflow(repo, d2, 1.0), 0)
            except Exception as e:
                continue      # not C07's concern
            shifts = [step * s for s in (1, 7, 48 * 3, 100003, 17 * 48 * 365)] if tier == "quick" else [step * rng.randint(1, 10**6) for _ in range(12)] + [step]
            for sh in shifts:
                ev += 1
                try:
                    other = snapshot(workflow(repo, d2, 1.0, shift=sh), sh)
                except Exception as e:
                    failures.append({"key": "raised-after-shift", "input": dict(case, shift_s=sh), "observed": "%s: %s" % (type(e).__name__, e)})
                    continue
                for key in ("flags", "storm", "zi", "pairs"):
                    if base[key] != other[key]:
                        diff = [(a, b) for a, b in zip(base[key], other[key]) if a != b][:3]
                        failures.append({"key": "shift-" + key, "input": dict(case, shift_s=sh),
                                         "observed": "%s differ after shifting all timestamps by %d s: %r" % (key, sh, diff)})
                for key in ("rise", "rec"):
                    a, b = base[key], other[key]
                    if len(a) != len(b) or any(abs(x[0] - y[0]) > 1e-9 or abs(x[1] - y[1]) > 1e-6 * max(1.0, abs(x[1])) for x, y in zip(a, b)):
                        failures.append({"key": "shift-curve-" + key, "input": dict(case, shift_s=sh), "observed": "master curve changes after shifting the time origin"})
                if len(failures) >= 3:
                    break
            # fixed-offset time zones: the same wall-clock text declared east and west of Greenwich
            for zone, off in (("Etc/GMT-7", 7 * 3600), ("Etc/GMT+5", -5 * 3600), ("Pacific/Marquesas", -(9 * 3600 + 1800))):
                try:
                    tzc = snapshot(workflow(repo, d2, 1.0, tz=zone), -off)
                    ev += 1
                    for key in ("flags", "storm", "zi", "pairs"):
                        if base[key] != tzc[key]:
                            failures.append({"key": "tz-" + key, "input": dict(case, tz=zone),
                                             "observed": "%s are not shifted by exactly the zone offset when the same wall-clock data is declared in %s" % (key, zone)})
                except Exception as e:
                    failures.append({"key": "raised-tz", "input": dict(case, tz=zone), "observed": "%s: %s" % (type(e).__name__, e)})
            if len(samples) < 2:
                samples.append(case)
        if len(failures) >= 3:
            break
    seen, out = set(), []
    for f in failures:
        if f["key"] not in seen:
            seen.add(f["key"])
            out.append(f)
    return {"bound": "planted datasets on 30- and 20-minute grids (with an increment exactly at threshold x step) x shifts by multiples of the step x one fixed-offset zone",
            "evaluations": ev, "distinct": ev, "exhaustive": False, "failures": out[:3], "samples": samples}


# ----------------------------------------------------------------------------- C09

def run_C09(repo, tier, seed):
    ev = 0
    failures, samples = [], []
    data = planted(seed * 7 + 3, n_events=4)
    steps = (1.0, 0.5, 0.1, 0.2, 0.3, 2.5, 5.0) if tier != "quick" else (1.0, 0.1, 0.3, 2.5)
    for kind in ("rise", "recession"):
        for grid in steps:
            try:
                con = workflow(repo, data, grid, steps=(kind,))
            except Exception as e:
                if nothing_to_assemble(repo, data, grid, kind):
                    continue
                tb = traceback.extract_tb(e.__traceback__)[-1]
                failures.append({"key": "raised-noref", "input": {"step": kind, "grid_step_mm": grid}, "observed": "%s: %s (%s:%d)" % (type(e).__name__, e, tb.name, tb.lineno)})
                continue
            view = "average_rising_depth" if kind == "rise" else "average_recession_time"
            col = "mean_crossing_depth_mm" if kind == "rise" else "elapsed_time_s"
            rows = con.execute("SELECT zeta_mm, %s FROM %s ORDER BY zeta_mm" % (col, view)).fetchall()
            ev += 1
            if not rows:
                continue
            scale = max(1.0, max(abs(v) for _, v in rows))
            if abs(rows[-1][1]) > 1e-7 * scale:
                failures.append({"key": "origin-highest", "input": {"step": kind, "grid_step_mm": grid},
                                 "observed": "without a reference the curve at its highest level is %r, not 0" % rows[-1][1]})
            ks = sorted({int(round(z / grid)) for z, _ in rows})
            pick = ks[:: max(1, len(ks) // (4 if tier == "quick" else 12))]
            for k in pick:
                ref = k * grid
                case = {"step": kind, "grid_step_mm": grid, "k": k, "reference_zeta_mm": ref}
                ev += 1
                try:
                    c2 = workflow(repo, data, grid, ref=ref, steps=(kind,))
                except ValueError as e:
                    failures.append({"key": "multiple-rejected", "input": case, "observed": "reference %r = %d x %r refused: %s" % (ref, k, grid, str(e)[:100])})
                    continue
                except Exception as e:
                    tb = traceback.extract_tb(e.__traceback__)[-1]
                    failures.append({"key": "raised-" + type(e).__name__, "input": case, "observed": "%s: %s (%s:%d)" % (type(e).__name__, e, tb.name, tb.lineno)})
                    continue
                r2 = dict((int(round(z / grid)), v) for z, v in c2.execute("SELECT zeta_mm, %s FROM %s" % (col, view)))
                if k not in r2 or abs(r2[k]) > 1e-7 * scale:
                    failures.append({"key": "not-zero-at-reference", "input": case, "observed": "curve at the reference level is %r" % (r2.get(k),)})
            # the boundary multiple k = 0: 0.0 is a legitimate reference level (and falsy in Python).  The planted record is
            # lowered by a whole number of mm so that level 0 lies inside the curve.
            c = float(round(rows[len(rows) // 2][0]))
            data0 = dict(data, wl=[(e, v - c) for e, v in data["wl"]])
            case = {"step": kind, "grid_step_mm": grid, "k": 0, "reference_zeta_mm": 0.0, "record_lowered_by_mm": c}
            try:
                c3 = workflow(repo, data0, grid, ref=0.0, steps=(kind,))
                r3 = dict((int(round(z / grid)), v) for z, v in c3.execute("SELECT zeta_mm, %s FROM %s" % (col, view)))
                if 0 in r3:
                    ev += 1
                    if abs(r3[0]) > 1e-7 * scale:
                        failures.append({"key": "not-zero-at-reference-0", "input": case,
                                         "observed": "curve at the reference level 0 is %r" % (r3[0],)})
            except ValueError as e:
                failures.append({"key": "zero-rejected", "input": case, "observed": "reference 0.0 refused: %s" % str(e)[:100]})
            except Exception as e:
                if not nothing_to_assemble(repo, data0, grid, kind):
                    tb = traceback.extract_tb(e.__traceback__)[-1]
                    failures.append({"key": "raised-ref0-" + type(e).__name__, "input": case,
                                     "observed": "%s: %s (%s:%d)" % (type(e).__name__, e, tb.name, tb.lineno)})
            # off-grid reference
            k = ks[len(ks) // 2]
            ref = (k + 0.5) * grid
            ev += 1
            try:
                workflow(repo, data, grid, ref=ref, steps=(kind,))
                failures.append({"key": "off-grid-accepted", "input": {"step": kind, "grid_step_mm": grid, "reference_zeta_mm": ref}, "observed": "accepted"})
            except ValueError:
                pass
            except Exception as e:
                failures.append({"key": "off-grid-other-exception", "input": {"step": kind, "grid_step_mm": grid, "reference_zeta_mm": ref}, "observed": "%s: %s" % (type(e).__name__, e)})
            if len(samples) < 2:
                samples.append({"step": kind, "grid_step_mm": grid, "multiples_tried": pick[:5]})
    seen, out = set(), []
    for f in failures:
        if f["key"] not in seen:
            seen.add(f["key"])
            out.append(f)
    return {"bound": "1 planted dataset x grid steps %r x multiples of the step across the curve's range x rise / recession" % (steps,),
            "evaluations": ev, "distinct": ev, "exhaustive": False, "failures": out[:4], "samples": samples}


# ----------------------------------------------------------------------------- C13

def run_C13(repo, tier, seed):
    m = _mods(repo)
    ev = 0
    failures, samples = [], []
    for k in range(2 if tier == "quick" else 10):
        for grid in (1.0, 0.5, 2.5, -0.5, 1j):
            # grid < 0 marks the dataset with a non-monotone recession (levels crossed more than once), at |grid|;
            # an imaginary grid marks the dataset whose water-level record has a hole (logger outage) inside its first long
            # recession while rainfall goes on being recorded: positions in the water-level record and in the rainfall
            # record differ from there on, and the storms after the hole must still get their own rain
            gap = isinstance(grid, complex)
            data = planted(seed * 31 + k, wiggle=(not gap) and grid < 0)
            grid = abs(grid)
            if gap:
                data = with_gap(data)
                if data is None:
                    continue
            case = {"planted_seed": seed * 31 + k, "grid_step_mm": grid, "non_monotone_recession": data.get("wiggle", False),
                    "water_level_gap": gap}
            try:
                con = workflow(repo, data, grid)
            except Exception as e:
                if nothing_to_assemble(repo, data, grid, "rise") or nothing_to_assemble(repo, data, grid, "recession"):
                    continue
                tb = traceback.extract_tb(e.__traceback__)[-1]
                failures.append({"key": "raised-" + type(e).__name__, "input": case, "observed": "%s: %s (%s:%d)" % (type(e).__name__, e, tb.name, tb.lineno)})
                continue
            ev += 1
            wl = dict(con.execute("SELECT epoch, zeta_mm FROM water_level"))
            matched = dict(con.execute("SELECT interval_start_epoch, storm_start_epoch FROM zeta_interval_storm"))
            zi = {(a, t): b for a, t, b in con.execute("SELECT start_epoch, interval_type, thru_epoch FROM zeta_interval")}
            # the storm's total rain depth, recomputed from the rainfall rows of exactly its steps
            depth = {}
            for s0, s1 in con.execute("SELECT start_epoch, thru_epoch FROM storm").fetchall():
                depth[s0] = sum(r * (t - f) / 3600.0 for f, t, r in con.execute(
                    "SELECT from_epoch, thru_epoch, rainfall_intensity_mm_h FROM rainfall_intensity WHERE from_epoch >= ? AND from_epoch < ?", (s0, s1)))
            grid_levels = {r[0] for r in con.execute("SELECT zeta_number FROM discrete_zeta")}
            zmin, zmax = con.execute("SELECT min(zeta_mm), max(zeta_mm) FROM water_level").fetchone()
            if not (min(grid_levels) * grid <= zmin and zmax <= (max(grid_levels) + 1) * grid):
                failures.append({"key": "grid-coverage", "input": case, "observed": "grid cells do not cover [%r, %r]" % (zmin, zmax)})
            for s, in con.execute("SELECT start_epoch FROM rising_interval"):
                if s not in matched:
                    failures.append({"key": "rise-not-matched", "input": case, "observed": "rising_interval %d is not a matched rise" % s})
                    continue
                z0, z1 = wl[s], wl[zi[(s, "storm")]]
                d = depth[matched[s]]
                rows = con.execute("SELECT zeta_number, mean_crossing_depth_mm FROM rising_interval_zeta WHERE start_epoch=?", (s,)).fetchall()
                want = {kk: d * (kk * grid - z0) / (z1 - z0) for kk in range(int(np.ceil(z0 / grid)), int(np.ceil(z1 / grid)))}
                got = dict(rows)
                if set(got) - set(want) or any(abs(got[kk] - want[kk]) > 1e-7 * max(1.0, abs(want[kk])) for kk in got):
                    failures.append({"key": "rise-crossing", "input": case, "observed": "crossings of rise %d: %r, expected (subset of) %r" % (s, sorted(got.items())[:3], sorted(want.items())[:3])})
                if set(got) - grid_levels:
                    failures.append({"key": "level-not-on-grid", "input": case, "observed": "levels %r not in discrete_zeta" % sorted(set(got) - grid_levels)})
            inter = {a: b for (a, t), b in zi.items() if t == "interstorm"}
            for s, in con.execute("SELECT start_epoch FROM recession_interval"):
                if s not in inter:
                    failures.append({"key": "recession-not-interstorm", "input": case, "observed": "recession_interval %d is not an interstorm interval" % s})
                    continue
                es = sorted(e for e in wl if s <= e <= inter[s])
                zs = [wl[e] for e in es]
                want = {}
                for (e0, a), (e1, b) in zip(zip(es, zs), zip(es[1:], zs[1:])):
                    lo, hi = (a, b) if a <= b else (b, a)
                    for kk in range(int(np.ceil(lo / grid)), int(np.ceil(hi / grid))):
                        want.setdefault(kk, []).append((e0 - s) + (kk * grid - a) * (e1 - e0) / (b - a))
                want = {kk: float(np.mean(v)) for kk, v in want.items()}
                got = dict(con.execute("SELECT zeta_number, mean_crossing_time FROM recession_interval_zeta WHERE start_epoch=?", (s,)))
                if set(got) - set(want) or any(abs(got[kk] - want[kk]) > 1e-6 * max(1.0, abs(want[kk])) for kk in got):
                    failures.append({"key": "recession-crossing", "input": case, "observed": "crossings of recession %d differ from its own samples" % s})
                if set(got) - grid_levels:
                    failures.append({"key": "level-not-on-grid", "input": case, "observed": "levels %r not in discrete_zeta" % sorted(set(got) - grid_levels)})
            if len(samples) < 2:
                samples.append(case)
            if len(failures) >= 3:
                break
        if len(failures) >= 3:
            break
    seen, out = set(), []
    for f in failures:
        if f["key"] not in seen:
            seen.add(f["key"])
            out.append(f)
    return {"bound": "planted datasets x grid steps {1, 0.5, 2.5} mm through load / classify / set-zeta-grid / rise / recession",
            "evaluations": ev, "distinct": ev, "exhaustive": False, "failures": out[:3], "samples": samples}


def replay(repo, rec):
    fn = globals()["run_" + rec["property"]]
    r = fn(repo, "quick", 0)
    for f in r["failures"]:
        print("  ", f["observed"][:300])
    return not r["failures"]
