"""Bounded validation for C15 on real SplineTransmissivity objects."""
import math
import random
import sys

import numpy as np


def _mod(repo):
    if repo not in sys.path:
        sys.path.insert(0, repo)
    import importlib
    return importlib.import_module("spowtd.transmissivity")


def closed_form(knots, K, tmin, z):
    """T_min + integral of exp(piecewise-linear log K) from the lowest knot to z."""
    if z <= knots[0]:
        return tmin
    tot = tmin
    for a, b, ka, kb in zip(knots, knots[1:], K, K[1:]):
        if z <= a:
            break
        hi = min(z, b)
        la, lb = math.log(ka), math.log(kb)
        s = (lb - la) / (b - a)
        if abs(s) < 1e-300:
            tot += ka * (hi - a)
        else:
            tot += ka * (math.exp(s * (hi - a)) - 1) / s
    return tot


def run_C15(repo, tier, seed):
    tm = _mod(repo)
    rng = random.Random(seed)
    sets = [([-291.7, -5.167, 168.3, 1000.0], [0.005356, 1.002, 6577.0, 8430.0], 7.442),
            ([-100.0, -50.0, 0.0, 40.0], [0.01, 0.8, 0.8, 300.0], 0.5),
            # D13: seven decades with kinks -- quad without breakpoints was off by 4e-7 relative and not monotone
            ([-247.14632679808756, -204.8712984902944, -139.83650980208796, -5.13770682774026, 294.0822203942247, 296.3769856869237],
             [3.4680545896727417, 0.008108255567043653, 5499.4847529056415, 266.33960678960443, 0.3834922321398456, 0.00044011538304594797],
             0.19064192678076167)]
    for _ in range(2 if tier == "quick" else 25):
        n = rng.randint(2, 6)
        ks = sorted(rng.uniform(-400, 400) for _ in range(n))
        if min(b - a for a, b in zip(ks, ks[1:])) < 1.0:
            continue
        sets.append((ks, [10 ** rng.uniform(-4, 4) for _ in range(n)], 10 ** rng.uniform(-2, 2)))
    ev = 0
    failures, samples = [], []
    for ks, K, tmin in sets:
        case = {"zeta_knots_mm": ks, "K_knots_km_d": K, "minimum_transmissivity_m2_d": tmin}
        try:
            T = tm.SplineTransmissivity(zeta_knots_mm=list(ks), K_knots_km_d=list(K), minimum_transmissivity_m2_d=tmin)
            for k, kv in zip(ks[:-1], K[:-1]):
                ev += 1
                if abs(T.conductivity(k) - kv) > 1e-9 * kv:
                    failures.append({"key": "knot", "input": case, "observed": "conductivity(%r)=%r, knot %r" % (k, T.conductivity(k), kv)})
            zs = [ks[0] - 10.0, ks[0], ks[0] + 1e-7] + [a + f * (b - a) for a, b in zip(ks, ks[1:]) for f in (0.25, 0.9)] + [ks[-1]]
            vals = []
            for z in zs:
                ev += 1
                got = T(z)
                want = closed_form(ks, K, tmin, z)
                vals.append(got)
                if abs(got - want) > 1e-8 * max(want, 1e-12):
                    failures.append({"key": "value", "input": dict(case, z=z), "observed": "T=%r, minimum + integral = %r" % (got, want)})
            if any(b < a - 1e-9 * max(abs(a), 1) for a, b in zip(vals, vals[1:])):
                failures.append({"key": "monotone", "input": case, "observed": "decreases with level"})
            arr = T(np.array(zs[::-1]))
            if np.max(np.abs(arr - np.array(vals[::-1])) / np.maximum(np.abs(np.array(vals[::-1])), 1e-12)) > 1e-9:
                failures.append({"key": "array-vs-scalar", "input": case, "observed": "array and scalar arguments give different values"})
            # levels in no particular order (a rotation: a permutation that is not its own inverse), with a repeated level
            perm = list(range(2, len(zs))) + [0, 1] + [3]
            arr = T(np.array([zs[i] for i in perm]))
            ref = np.array([vals[i] for i in perm])
            ev += 1
            if len(arr) != len(ref) or np.max(np.abs(arr - ref) / np.maximum(np.abs(ref), 1e-12)) > 1e-9:
                failures.append({"key": "array-unordered", "input": dict(case, levels=[zs[i] for i in perm]),
                                 "observed": "array argument in no particular order: values %r, scalar calls give %r" % (list(arr)[:4], list(ref)[:4])})
        except Exception as e:
            failures.append({"key": "raised-" + type(e).__name__, "input": case, "observed": "%s: %s" % (type(e).__name__, e)})
        if len(samples) < 2:
            samples.append(case)
    return {"bound": "%d knot sets (3 fixed incl. a flat segment and the D13 profile, rest seeded, conductivities over 8 decades) x levels at / below / between / at the top knot" % len(sets),
            "evaluations": ev, "distinct": len(sets), "exhaustive": False, "failures": failures[:3], "samples": samples}


def replay(repo, rec):
    return not run_C15(repo, "quick", 0)["failures"]
