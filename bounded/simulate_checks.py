"""Bounded stand-ins for the command-level clauses of C17 / C18 (mean, tabulated output, ET query)
on the real simulate_rise / simulate_recession functions, with master-curve tables written
directly into a database created from the real schema.sql."""
import io
import os
import random
import sqlite3
import sys

import warnings

import numpy as np
import yaml

warnings.filterwarnings("ignore")

SY_SPLINE = {"type": "spline", "zeta_knots_mm": [-291.7, -183.1, -15.74, 10.65, 38.78, 168.3],
             "sy_knots": [0.13, 0.18, 0.33, 0.55, 0.71, 0.9]}
T_SPLINE = {"type": "spline", "zeta_knots_mm": [-291.7, -5.167, 168.3, 1000], "K_knots_km_d": [0.005356, 1.002, 6577.0, 8430.0],
            "minimum_transmissivity_m2_d": 7.442}


SY_PEATCLSM = {"type": "peatclsm", "sd": 0.162, "theta_s": 0.88, "b": 7.4, "psi_s": -0.024}
T_PEATCLSM = {"type": "peatclsm", "Ksmacz0": 7.3, "alpha": 3, "zeta_max_cm": 1.0}


def _mods(repo):
    if repo not in sys.path:
        sys.path.insert(0, repo)
    import importlib
    return {n: importlib.import_module("spowtd." + n) for n in
            ("simulate_rise", "simulate_recession", "specific_yield", "transmissivity")}


def master_db(repo, step_mm, rise_levels, rise_rows, rec_levels=(), rec_rows=(), et=None, curvature=None):
    """rise_rows: list of (start_epoch, offset, {level: crossing}); likewise rec_rows."""
    con = sqlite3.connect(":memory:")
    con.executescript(open(os.path.join(repo, "spowtd", "schema.sql")).read())
    con.execute("PRAGMA foreign_keys = 0")
    con.execute("INSERT INTO zeta_grid (grid_interval_mm) VALUES (?)", (step_mm,))
    for k in sorted(set(rise_levels) | set(rec_levels)):
        con.execute("INSERT INTO discrete_zeta (zeta_number) VALUES (?)", (k,))
    for s, off, cr in rise_rows:
        con.execute("INSERT INTO rising_interval (start_epoch, rain_depth_offset_mm) VALUES (?,?)", (s, off))
        for k, v in cr.items():
            con.execute("INSERT INTO rising_interval_zeta VALUES (?,?,?)", (s, k, v))
    for s, off, cr in rec_rows:
        con.execute("INSERT INTO recession_interval (start_epoch, time_offset_s) VALUES (?,?)", (s, off))
        for k, v in cr.items():
            con.execute("INSERT INTO recession_interval_zeta VALUES (?,?,?)", (s, k, v))
    for row in (et or []):
        con.execute("INSERT INTO evapotranspiration VALUES (?,?,?)", row)
    if curvature is not None:
        con.execute("INSERT INTO curvature (curvature_m_km2) VALUES (?)", (curvature,))
    return con


def run_C17(repo, tier, seed):
    from scipy.integrate import quad
    m = _mods(repo)
    rng = random.Random(seed)
    ev = 0
    failures, samples = [], []
    distinct = set()
    grids = [np.array([-300.0, -250.0, -100.0, 0.0, 20.0, 150.0, 200.0]), np.array([-50.0, -49.0, -48.5, -20.0]),
             np.array([170.0, 180.0, 400.0]), np.array([5.0])]
    for _ in range(4 if tier == "quick" else 40):
        n = rng.randint(2, 9)
        grids.append(np.array(sorted(rng.uniform(-400, 300) for _ in range(n))))
    for grid in grids:
        sy = m["specific_yield"].create_specific_yield_function(dict(SY_SPLINE))
        for mean in (0.0, 12.5):
            W = m["simulate_rise"].compute_rise_curve(sy, grid, mean)
            ev += 1
            distinct.add(tuple(grid))
            case = {"zeta_grid_mm": grid.tolist(), "mean_storage_mm": mean}
            if abs(W.mean() - mean) > 1e-9 * max(1, abs(mean)):
                failures.append({"key": "mean", "input": case, "observed": "mean %r, requested %r" % (W.mean(), mean)})
            for i in range(len(grid)):
                for j in range(i + 1, len(grid)):
                    want = quad(lambda z: float(sy(z)), grid[i], grid[j], epsabs=1e-11, epsrel=1e-11, limit=200,
                                points=[k for k in SY_SPLINE["zeta_knots_mm"] if grid[i] < k < grid[j]] or None)[0]
                    if abs((W[j] - W[i]) - want) > 1e-6 * max(1.0, abs(want)):
                        failures.append({"key": "difference", "input": case,
                                         "observed": "W[%d]-W[%d]=%r, integral of Sy %r" % (j, i, W[j] - W[i], want)})
            if any(W[k + 1] < W[k] - 1e-12 for k in range(len(W) - 1)):
                failures.append({"key": "monotone", "input": case, "observed": "decreases although Sy >= 0"})
            # refinement: insert midpoints, shared levels keep their differences
            if len(grid) >= 2:
                fine = np.array(sorted(set(grid.tolist() + [(a + b) / 2 for a, b in zip(grid, grid[1:])])))
                Wf = m["simulate_rise"].compute_rise_curve(sy, fine, 0.0)
                idx = [int(np.argwhere(fine == g)[0, 0]) for g in grid]
                d0 = W - W[0]
                d1 = Wf[idx] - Wf[idx[0]]
                if np.max(np.abs(d0 - d1)) > 1e-7 * max(1.0, np.max(np.abs(d0))):
                    failures.append({"key": "refinement", "input": case, "observed": "values at shared levels change on refinement"})
        if len(samples) < 2:
            samples.append({"zeta_grid_mm": grid.tolist()})
    # command output
    for step in (1.0, 2.5):
        levels = [-40, -12, -3, 0, 7]
        rows = [(1000, 1.5, {k: 10.0 + 0.5 * k for k in levels[:4]}), (2000, -0.5, {k: 9.0 + 0.4 * k for k in levels[1:]})]
        con = master_db(repo, step, levels, rows)
        params = yaml.dump({"specific_yield": dict(SY_SPLINE), "transmissivity": dict(T_SPLINE)})
        out = io.StringIO()
        m["simulate_rise"].simulate_rise(con, io.StringIO(params), out, False)
        table = yaml.safe_load(out.getvalue())
        ev += 1
        meas = con.execute("SELECT zeta_mm, mean_crossing_depth_mm FROM average_rising_depth ORDER BY zeta_mm").fetchall()
        case = {"grid_step_mm": step, "levels": levels}
        if table[0] != ["Water level, mm", "Measured storage, mm", "Simulated storage, mm"]:
            failures.append({"key": "header", "input": case, "observed": repr(table[0])})
        body = table[1:]
        if [r[0] for r in body] != [z for z, _ in meas] or any(abs(r[1] - w) > 1e-12 for r, (_, w) in zip(body, meas)):
            failures.append({"key": "table", "input": case, "observed": "levels / measured column differ from the master curve: %r vs %r" % (body[:2], meas[:2])})
        if abs(np.mean([r[2] for r in body]) - np.mean([w for _, w in meas])) > 1e-9:
            failures.append({"key": "table-mean", "input": case, "observed": "mean of simulated != mean of measured"})
        out2 = io.StringIO()
        m["simulate_rise"].simulate_rise(con, io.StringIO(params), out2, True)
        vec = yaml.safe_load(out2.getvalue())
        if out2.getvalue().splitlines()[0] != "# Rise curve simulation vector" or vec != [r[2] for r in body]:
            failures.append({"key": "vector", "input": case, "observed": "observations-only output differs from the table's simulated column"})
    return {"bound": "%d level grids (inside / straddling / beyond the knots, single level) x 2 means; 2 master-curve tables through simulate_rise" % len(grids),
            "evaluations": ev, "distinct": len(distinct), "exhaustive": False, "failures": failures[:3], "samples": samples}


def replay(repo, rec):
    fn = {"C17": run_C17}.get(rec["property"]) or globals().get("run_" + rec["property"])
    return not fn(repo, "quick", 0)["failures"]


def _rec_db(repo, step_mm, et_pattern):
    """A database with two recession intervals on a 1800 s grid and time-varying ET."""
    S = 1800
    levels = [-30, -20, -10, -5, 0]
    iv = [(10 * S, 16 * S), (30 * S, 33 * S)]           # (start, thru) of two interstorm intervals
    rows = [(iv[0][0], 100.0, {k: 5000.0 - 300.0 * k for k in levels[1:]}),
            (iv[1][0], -250.0, {k: 4000.0 - 280.0 * k for k in levels[:4]})]
    et = [(i * S, (i + 1) * S, et_pattern(i)) for i in range(0, 40)]
    con = master_db(repo, step_mm, [], [], levels, rows, et=et, curvature=2.36)
    for s, t in iv:
        con.execute("INSERT INTO zeta_interval (start_epoch, interval_type, thru_epoch) VALUES (?, 'interstorm', ?)", (s, t))
    # a third interstorm interval that is NOT part of the master curve, with very different ET
    con.execute("INSERT INTO zeta_interval (start_epoch, interval_type, thru_epoch) VALUES (?, 'interstorm', ?)", (20 * S, 24 * S))
    want = np.mean([v for f, t, v in et if any(s <= f < th for s, th in iv)]) * 24
    return con, want, levels


def run_C18(repo, tier, seed):
    from scipy.integrate import quad
    m = _mods(repo)
    rng = random.Random(seed)
    ev = 0
    failures, samples = [], []
    distinct = set()
    sy = m["specific_yield"].create_specific_yield_function(dict(SY_SPLINE))
    T = m["transmissivity"].create_transmissivity_function(dict(T_SPLINE))
    grids = [np.array([-250.0, -200.0, -100.0, -20.0, 0.0, 30.0, 100.0]), np.array([-60.0, -59.0, -30.0]), np.array([5.0])]
    for _ in range(3 if tier == "quick" else 30):
        grids.append(np.array(sorted(rng.uniform(-290, 160) for _ in range(rng.randint(2, 7)))))
    for grid in grids:
        for et, kappa in ((4.0, 0.0), (0.0, 2.36e-3), (3.1, 1.0e-3)):
            case = {"zeta_grid_mm": grid.tolist(), "et_mm_d": et, "curvature_km": kappa}
            try:
                t0 = m["simulate_recession"].compute_recession_curve(sy, T, grid, 0.0, kappa, et)
                if abs(t0.mean()) > 1e-9:
                    failures.append({"key": "mean", "input": dict(case, mean=0.0), "observed": "mean %r, requested 0.0" % t0.mean()})
                t = m["simulate_recession"].compute_recession_curve(sy, T, grid, 19.0, kappa, et)
            except Exception as e:
                failures.append({"key": "raised", "input": case, "observed": "%s: %s" % (type(e).__name__, e)})
                continue
            ev += 1
            distinct.add((tuple(grid), et, kappa))
            if abs(t.mean() - 19.0) > 1e-9 * 19:
                failures.append({"key": "mean", "input": case, "observed": "mean %r, requested 19.0" % t.mean()})
            f = lambda z: float(sy(z)) / (-et - kappa * float(T(z)))
            for i in range(len(grid) - 1):
                want = quad(f, grid[i], grid[i + 1], epsabs=1e-12, epsrel=1e-10, limit=200)[0]
                if abs((t[i + 1] - t[i]) - want) > 1e-6 * max(1.0, abs(want)):
                    failures.append({"key": "difference", "input": case, "observed": "t[%d]-t[%d]=%r, integral %r" % (i + 1, i, t[i + 1] - t[i], want)})
            if any(t[k + 1] > t[k] + 1e-12 for k in range(len(t) - 1)):
                failures.append({"key": "direction", "input": case, "observed": "time does not increase as the level falls"})
            if len(grid) >= 2:
                tr = m["simulate_recession"].compute_recession_curve(sy, T, grid[::-1].copy(), 19.0, kappa, et)
                if np.max(np.abs((tr[::-1] - tr[::-1][0]) - (t - t[0]))) > 1e-7 * max(1.0, np.max(np.abs(t - t[0]))):
                    failures.append({"key": "reversal", "input": case, "observed": "reversing the grid changes values at shared levels"})
            if kappa == 0.0 and len(grid) >= 2:
                W = m["simulate_rise"].compute_rise_curve(sy, grid, 0.0)
                if np.max(np.abs((t - t[0]) * et + (W - W[0]))) > 1e-6 * max(1.0, np.max(np.abs(W - W[0]))):
                    failures.append({"key": "water-balance", "input": case, "observed": "elapsed time x ET != storage released"})
        if len(samples) < 2:
            samples.append({"zeta_grid_mm": grid.tolist()})
    # command level: ET query and tabulated output
    for pat_name, pat in (("step", lambda i: 0.05 + 0.01 * (i % 7)), ("high-at-starts", lambda i: 0.4 if i in (10, 30) else 0.1),
                          ("other-interval-differs", lambda i: 0.9 if 20 <= i < 24 else 0.12)):
        for step_mm in (1.0, 5.0):
            con, want_et, levels = _rec_db(repo, step_mm, pat)
            params = yaml.dump({"specific_yield": dict(SY_SPLINE), "transmissivity": dict(T_SPLINE)})
            case = {"et_pattern": pat_name, "grid_step_mm": step_mm}
            ev += 1
            seen = {}
            orig = m["simulate_recession"].compute_recession_curve

            def spy(**kw):
                seen.update(kw)
                return orig(**kw)
            m["simulate_recession"].compute_recession_curve = spy
            try:
                out = io.StringIO()
                m["simulate_recession"].dump_simulated_recession(con, io.StringIO(params), out, False)
                out2 = io.StringIO()
                m["simulate_recession"].dump_simulated_recession(con, io.StringIO(params), out2, True)
            except Exception as e:
                failures.append({"key": "raised", "input": case, "observed": "%s: %s" % (type(e).__name__, e)})
                continue
            finally:
                m["simulate_recession"].compute_recession_curve = orig
            if abs(seen["et_mm_d"] - want_et) > 1e-9 * max(1.0, want_et):
                failures.append({"key": "et-average", "input": case,
                                 "observed": "ET used %r mm/d, time-average over the steps of the master curve's intervals %r" % (seen["et_mm_d"], want_et)})
            table = yaml.safe_load(out.getvalue())
            meas = con.execute("SELECT zeta_mm, CAST(elapsed_time_s AS double precision) / 86400 FROM average_recession_time ORDER BY zeta_mm DESC").fetchall()
            body = table[1:]
            if table[0] != ["Water level, mm", "Measured elapsed time, d", "Simulated elapsed time, d"]:
                failures.append({"key": "header", "input": case, "observed": repr(table[0])})
            if any(abs(r[0] - z) > 1e-9 for r, (z, _) in zip(body, meas)) or len(body) != len(meas):
                failures.append({"key": "levels-mm-descending", "input": case,
                                 "observed": "first column %r, master-curve levels in mm from highest to lowest %r" % ([r[0] for r in body], [z for z, _ in meas])})
            if any(abs(r[1] - t) > 1e-9 for r, (_, t) in zip(body, meas)):
                failures.append({"key": "measured-column", "input": case, "observed": "measured column differs from the master curve"})
            vec = yaml.safe_load(out2.getvalue())
            if vec != [r[2] for r in body] or out2.getvalue().splitlines()[0] != "# Recession curve simulation vector":
                failures.append({"key": "vector", "input": case, "observed": "observations-only output differs from the table's simulated column"})
            if abs(np.mean([r[2] for r in body]) - np.mean([t for _, t in meas])) > 1e-9:
                failures.append({"key": "table-mean", "input": case, "observed": "mean of simulated != mean of measured"})
    # command level: the transmissivity handed to compute_recession_curve is in m2/d for every mixture of the two kinds of
    # specific yield and transmissivity (PEATCLSM transmissivity is m2/s and is converted; the kind of specific yield is
    # irrelevant) -- compared with a function built independently from the same document
    class _Captured(Exception):
        pass
    con, _, _ = _rec_db(repo, 5.0, lambda i: 0.1)
    for sy_kind, sy_doc in (("spline", SY_SPLINE), ("peatclsm", SY_PEATCLSM)):
        for t_kind, t_doc in (("spline", T_SPLINE), ("peatclsm", T_PEATCLSM)):
            case = {"specific_yield": sy_kind, "transmissivity": t_kind}
            ev += 1
            seen = {}
            orig = m["simulate_recession"].compute_recession_curve

            def spy2(**kw):
                seen.update(kw)
                raise _Captured()
            m["simulate_recession"].compute_recession_curve = spy2
            try:
                m["simulate_recession"].simulate_recession(
                    con, io.StringIO(yaml.dump({"specific_yield": dict(sy_doc), "transmissivity": dict(t_doc)})))
            except _Captured:
                pass
            except Exception as e:
                failures.append({"key": "raised-mixed", "input": case, "observed": "%s: %s" % (type(e).__name__, e)})
                continue
            finally:
                m["simulate_recession"].compute_recession_curve = orig
            ref = m["transmissivity"].create_transmissivity_function(dict(t_doc))
            factor = 86400.0 if t_kind == "peatclsm" else 1.0
            for z in (-250.0, -60.0, -5.0, 0.0):
                got, want = float(seen["transmissivity_m2_d"](z)), float(ref(z)) * factor
                if abs(got - want) > 1e-9 * abs(want):
                    failures.append({"key": "transmissivity-units", "input": dict(case, zeta_mm=z),
                                     "observed": "transmissivity used %r m2/d, the parameter document gives %r m2/d" % (got, want)})
                    break
    return {"bound": "%d level grids x 3 (ET, curvature) settings; 3 ET patterns x 2 grid steps through dump_simulated_recession; "
                     "4 mixtures of parameter kinds through simulate_recession" % len(grids),
            "evaluations": ev, "distinct": len(distinct), "exhaustive": False, "failures": _dedupe(failures)[:4], "samples": samples}


def _dedupe(failures):
    seen, out = set(), []
    for f in failures:
        if f["key"] not in seen:
            seen.add(f["key"])
            out.append(f)
    return out
