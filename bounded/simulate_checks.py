"""Bounded stand-ins for the command-level clauses of C17 / C18 (mean, tabulated output, ET query)
on the real simulate_rise / simulate_recession functions, with master-curve tables written
directly into a database created from the real schema.sql."""
import io
import os
import random
import sqlite3
import sys

import numpy as np
import yaml

SY_SPLINE = {"type": "spline", "zeta_knots_mm": [-291.7, -183.1, -15.74, 10.65, 38.78, 168.3],
             "sy_knots": [0.13, 0.18, 0.33, 0.55, 0.71, 0.9]}
T_SPLINE = {"type": "spline", "zeta_knots_mm": [-291.7, -5.167, 168.3, 1000], "K_knots_km_d": [0.005356, 1.002, 6577.0, 8430.0],
            "minimum_transmissivity_m2_d": 7.442}


def _mods(repo):
    if repo not in sys.path:
        sys.path.insert(0, repo)
    import importlib
    return {n: importlib.import_module("spowtd." + n) for n in
            ("simulate_rise", "simulate_recession", "specific_yield", "transmissivity")}


def master_db(repo, step_mm, rise_levels, rise_rows, rec_levels=(), rec_rows=(), et=None, curvature=None):
    """rise_rows: list of (start_epoch, offset, {level: crossing}); likewise rec_rows."""
    con = sqlite3.connect(":memory:")
    con.executescript(open(os.path.join(repo, "spowtd", "schema.sql")).read())
    con.execute("PRAGMA foreign_keys = 0")
    con.execute("INSERT INTO zeta_grid (grid_interval_mm) VALUES (?)", (step_mm,))
    for k in sorted(set(rise_levels) | set(rec_levels)):
        con.execute("INSERT INTO discrete_zeta (zeta_number) VALUES (?)", (k,))
    for s, off, cr in rise_rows:
        con.execute("INSERT INTO rising_interval (start_epoch, rain_depth_offset_mm) VALUES (?,?)", (s, off))
        for k, v in cr.items():
            con.execute("INSERT INTO rising_interval_zeta VALUES (?,?,?)", (s, k, v))
    for s, off, cr in rec_rows:
        con.execute("INSERT INTO recession_interval (start_epoch, time_offset_s) VALUES (?,?)", (s, off))
        for k, v in cr.items():
            con.execute("INSERT INTO recession_interval_zeta VALUES (?,?,?)", (s, k, v))
    for row in (et or []):
        con.execute("INSERT INTO evapotranspiration VALUES (?,?,?)", row)
    if curvature is not None:
        con.execute("INSERT INTO curvature (curvature_m_km2) VALUES (?)", (curvature,))
    return con


def run_C17(repo, tier, seed):
    from scipy.integrate import quad
    m = _mods(repo)
    rng = random.Random(seed)
    ev = 0
    failures, samples = [], []
    distinct = set()
    grids = [np.array([-300.0, -250.0, -100.0, 0.0, 20.0, 150.0, 200.0]), np.array([-50.0, -49.0, -48.5, -20.0]),
             np.array([170.0, 180.0, 400.0]), np.array([5.0])]
    for _ in range(4 if tier == "quick" else 40):
        n = rng.randint(2, 9)
        grids.append(np.array(sorted(rng.uniform(-400, 300) for _ in range(n))))
    for grid in grids:
        sy = m["specific_yield"].create_specific_yield_function(dict(SY_SPLINE))
        for mean in (0.0, 12.5):
            W = m["simulate_rise"].compute_rise_curve(sy, grid, mean)
            ev += 1
            distinct.add(tuple(grid))
            case = {"zeta_grid_mm": grid.tolist(), "mean_storage_mm": mean}
            if abs(W.mean() - mean) > 1e-9 * max(1, abs(mean)):
                failures.append({"key": "mean", "input": case, "observed": "mean %r, requested %r" % (W.mean(), mean)})
            for i in range(len(grid)):
                for j in range(i + 1, len(grid)):
                    want = quad(lambda z: float(sy(z)), grid[i], grid[j], epsabs=1e-11, epsrel=1e-11, limit=200,
                                points=[k for k in SY_SPLINE["zeta_knots_mm"] if grid[i] < k < grid[j]] or None)[0]
                    if abs((W[j] - W[i]) - want) > 1e-6 * max(1.0, abs(want)):
                        failures.append({"key": "difference", "input": case,
                                         "observed": "W[%d]-W[%d]=%r, integral of Sy %r" % (j, i, W[j] - W[i], want)})
            if any(W[k + 1] < W[k] - 1e-12 for k in range(len(W) - 1)):
                failures.append({"key": "monotone", "input": case, "observed": "decreases although Sy >= 0"})
            # refinement: insert midpoints, shared levels keep their differences
            if len(grid) >= 2:
                fine = np.array(sorted(set(grid.tolist() + [(a + b) / 2 for a, b in zip(grid, grid[1:])])))
                Wf = m["simulate_rise"].compute_rise_curve(sy, fine, 0.0)
                idx = [int(np.argwhere(fine == g)[0, 0]) for g in grid]
                d0 = W - W[0]
                d1 = Wf[idx] - Wf[idx[0]]
                if np.max(np.abs(d0 - d1)) > 1e-7 * max(1.0, np.max(np.abs(d0))):
                    failures.append({"key": "refinement", "input": case, "observed": "values at shared levels change on refinement"})
        if len(samples) < 2:
            samples.append({"zeta_grid_mm": grid.tolist()})
    # command output
    for step in (1.0, 2.5):
        levels = [-40, -12, -3, 0, 7]
        rows = [(1000, 1.5, {k: 10.0 + 0.5 * k for k in levels[:4]}), (2000, -0.5, {k: 9.0 + 0.4 * k for k in levels[1:]})]
        con = master_db(repo, step, levels, rows)
        params = yaml.dump({"specific_yield": dict(SY_SPLINE), "transmissivity": dict(T_SPLINE)})
        out = io.StringIO()
        m["simulate_rise"].simulate_rise(con, io.StringIO(params), out, False)
        table = yaml.safe_load(out.getvalue())
        ev += 1
        meas = con.execute("SELECT zeta_mm, mean_crossing_depth_mm FROM average_rising_depth ORDER BY zeta_mm").fetchall()
        case = {"grid_step_mm": step, "levels": levels}
        if table[0] != ["Water level, mm", "Measured storage, mm", "Simulated storage, mm"]:
            failures.append({"key": "header", "input": case, "observed": repr(table[0])})
        body = table[1:]
        if [r[0] for r in body] != [z for z, _ in meas] or any(abs(r[1] - w) > 1e-12 for r, (_, w) in zip(body, meas)):
            failures.append({"key": "table", "input": case, "observed": "levels / measured column differ from the master curve: %r vs %r" % (body[:2], meas[:2])})
        if abs(np.mean([r[2] for r in body]) - np.mean([w for _, w in meas])) > 1e-9:
            failures.append({"key": "table-mean", "input": case, "observed": "mean of simulated != mean of measured"})
        out2 = io.StringIO()
        m["simulate_rise"].simulate_rise(con, io.StringIO(params), out2, True)
        vec = yaml.safe_load(out2.getvalue())
        if out2.getvalue().splitlines()[0] != "# Rise curve simulation vector" or vec != [r[2] for r in body]:
            failures.append({"key": "vector", "input": case, "observed": "observations-only output differs from the table's simulated column"})
    return {"bound": "%d level grids (inside / straddling / beyond the knots, single level) x 2 means; 2 master-curve tables through simulate_rise" % len(grids),
            "evaluations": ev, "distinct": len(distinct), "exhaustive": False, "failures": failures[:3], "samples": samples}


def replay(repo, rec):
    fn = {"C17": run_C17}.get(rec["property"]) or globals().get("run_" + rec["property"])
    return not fn(repo, "quick", 0)["failures"]
