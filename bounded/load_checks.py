"""Bounded stand-ins for C10 / C11 on the real load_data: generated text files (water level on the
same or a different step than rainfall, aligned or not, gaps, shuffled rows, offsets between the
three records) and sampled time zones.  The oracle is written from the property statements."""
import datetime as dt
import io
import itertools
import random
import sqlite3
import sys
import traceback

import pytz

from pyvc import pipeline


def _load(repo):
    if repo not in sys.path:
        sys.path.insert(0, repo)
    import importlib
    return importlib.import_module("spowtd.load")


def text(rows, header, tz):
    out = [header]
    for e, v in rows:
        local = dt.datetime.fromtimestamp(e, pytz.utc).astimezone(tz)
        out.append("%s,%r" % (local.strftime("%Y-%m-%d %H:%M:%S"), float(v)))
    return io.StringIO("\n".join(out) + "\n")


def check_loaded(con, rain, et, wl, step):
    """rain/et/wl: source rows (epoch, value).  Returns list of failure texts."""
    bad = []
    wl = sorted(wl)
    zt = [e for e, _ in wl]
    zv = [v for _, v in wl]
    lo, hi = zt[0], zt[-1]
    want_grid = sorted(e for e, _ in rain if lo <= e <= hi)
    want_grid.append(want_grid[-1] + step)
    grid = [r[0] for r in con.execute("SELECT epoch FROM grid_time ORDER BY epoch")]
    if grid != want_grid:
        bad.append("time grid %r..., expected the rainfall instants within the water-level span plus one closing instant %r..." % (grid[:4], want_grid[:4]))
        return bad
    if con.execute("SELECT time_step_s FROM time_grid").fetchone()[0] != step:
        bad.append("stored time step differs from the rainfall step")
    rsrc, esrc = dict(rain), dict(et)
    for tbl, src, col in (("rainfall_intensity", rsrc, "rainfall_intensity_mm_h"), ("evapotranspiration", esrc, "evapotranspiration_mm_h")):
        rows = con.execute("SELECT from_epoch, thru_epoch, %s FROM %s ORDER BY from_epoch" % (col, tbl)).fetchall()
        want = [(e, e + step, src[e]) for e in grid[:-1]]
        if [tuple(r) for r in rows] != want:
            bad.append("%s rows differ from the source values on the grid steps" % tbl)
    # water level
    steps = [b - a for a, b in zip(zt, zt[1:])]
    smin = min(steps) if steps else None
    gaps = [(zt[i], zt[i + 1]) for i, s in enumerate(steps) if s != smin]
    got = dict(con.execute("SELECT epoch, zeta_mm FROM water_level"))
    labels = dict(con.execute("SELECT epoch, data_interval FROM grid_time"))
    import bisect
    for e in grid[:-1]:
        inside_gap = any(a < e < b for a, b in gaps)
        j = bisect.bisect_right(zt, e) - 1
        if inside_gap:
            if e in got:
                bad.append("a water level is produced for instant %d lying strictly inside the gap of the source record" % e)
            continue
        if zt[j] == e:
            want = zv[j]
        else:
            a, b = zt[j], zt[j + 1]
            want = zv[j] + (zv[j + 1] - zv[j]) * (e - a) / (b - a)
        if e not in got:
            bad.append("no water level at grid instant %d although it is bracketed by adjacent measurements" % e)
        elif abs(got[e] - want) > 1e-9 * max(1.0, abs(want)):
            bad.append("water level at %d is %r, linear interpolation of the bracketing measurements gives %r" % (e, got[e], want))
    extra = set(got) - set(grid[:-1])
    if extra:
        bad.append("water level at instants outside the grid: %r" % sorted(extra)[:3])
    # labels: constant within a stretch, distinct between stretches, NULL exactly where no water level... (closing instant aside)
    def stretch_of(e):
        k = 0
        for a, b in gaps:
            if e >= b:
                k += 1
        return k
    by = {}
    for e in got:
        by.setdefault(stretch_of(e), set()).add(labels.get(e))
    seen = []
    for k, ls in sorted(by.items()):
        if len(ls) != 1 or None in ls:
            bad.append("stretch %d carries labels %r" % (k, ls))
        seen.append(next(iter(ls)))
    if len(set(seen)) != len(seen):
        bad.append("stretches separated by gaps share a label: %r" % seen)
    return bad


def cases_C10(tier, seed):
    rng = random.Random(seed)
    step = 1800
    E0 = pipeline.E0
    # water-level sampling: (step, phase, length, removed samples)
    for wstep, phase in ((1800, 0), (1200, 0), (1200, 600), (900, 300), (3600, 0), (2700, 900)):
        for n in (6, 9):
            times = [E0 + 3 * step + phase + k * wstep for k in range(n)]
            removal_sets = [()] + [(i,) for i in range(1, n - 1)] + ([(2, 5)] if n > 6 else [])
            if tier == "quick":
                removal_sets = removal_sets[:4] + removal_sets[-1:]
            for rem in removal_sets:
                zt = [t for i, t in enumerate(times) if i not in rem]
                yield {"step": step, "wl_times": zt, "shuffle": (len(rem) + n) % 2 == 1}
    # short gaps: one source step only a little longer than the minimal step (x1.25, x1.5, x2), placed so that a grid
    # instant lies strictly inside it, next to an ordinary long gap
    for wstep, short in ((1200, 1500), (1200, 1800), (2400, 3600), (1200, 2400)):
        for at in (2, 4):
            t, zt = E0 + 3 * step + 600, []
            for k in range(9):
                zt.append(t)
                t += short if k == at else (5 * wstep if k == 6 else wstep)
            inside = [e for e in range(E0, zt[-1], step) if zt[at] < e < zt[at + 1]]
            if not inside:
                shift = (zt[at] // step + 1) * step - zt[at] - 300       # put a grid instant 300 s after the gap's start
                zt = [x + shift for x in zt]
            yield {"step": step, "wl_times": zt, "shuffle": at == 4}
    for _ in range(20 if tier == "quick" else 300):
        wstep = rng.choice([600, 900, 1200, 1800, 3600])
        n = rng.randint(3, 12)
        t, zt = E0 + rng.randint(2, 6) * step + rng.choice([0, 300, 600]), []
        for k in range(n):
            zt.append(t)
            t += wstep * (1 if rng.random() < 0.8 else rng.randint(2, 4))
        yield {"step": step, "wl_times": zt, "shuffle": rng.random() < 0.5}


def build(case, seed=0):
    rng = random.Random(seed)
    step = case["step"]
    zt = case["wl_times"]
    E0 = pipeline.E0
    nsteps = (max(zt) - E0) // step + 6
    rain = [(E0 + k * step, float(k % 5)) for k in range(nsteps)]
    et = [(E0 + k * step, 0.01 * (k % 7)) for k in range(-2, nsteps + 3)]
    wl = [(t, -100.0 + 0.37 * ((t // 300) % 23)) for t in zt]
    if case.get("shuffle"):
        rng.shuffle(wl)
        rng.shuffle(rain)
    return rain, et, wl


def run_case_C10(repo, case):
    L = _load(repo)
    rain, et, wl = build(case)
    tz = pytz.utc
    con = sqlite3.connect(":memory:")
    try:
        L.load_data(con, text(rain, "datetime,p", tz), text(et, "datetime,et", tz), text(wl, "datetime,z", tz), "UTC")
    except ValueError as e:
        # refusals are C11's subject; the generator only produces loadable inputs with >= 2 grid instants
        grid = [e_ for e_, _ in rain if min(t for t, _ in wl) <= e_ <= max(t for t, _ in wl)]
        if len(grid) >= 2:
            return ["load refused a well-formed dataset: %s" % e]
        return None
    except Exception as e:
        tb = traceback.extract_tb(e.__traceback__)[-1]
        return ["load raised %s: %s (%s:%d)" % (type(e).__name__, e, tb.name, tb.lineno)]
    return check_loaded(con, rain, et, wl, case["step"])


def run_C10(repo, tier, seed):
    ev = 0
    failures, samples, distinct = [], [], set()
    for case in cases_C10(tier, seed):
        r = run_case_C10(repo, case)
        if r is None:
            continue
        ev += 1
        distinct.add(tuple(case["wl_times"]))
        if len(samples) < 2:
            samples.append({"wl_offsets_s": [t - pipeline.E0 for t in case["wl_times"]], "shuffle": case["shuffle"]})
        if r:
            failures.append({"key": "C10:" + r[0].split(" ")[0] + "_" + r[0].split(" ")[1], "input": case, "observed": r[0]})
            if len(failures) >= 3:
                break
    return {"bound": "water level on 6 (step, phase) samplings x lengths x single / double removed samples, shuffled rows, + seeded random samplings",
            "evaluations": ev, "distinct": len(distinct), "exhaustive": False, "failures": failures, "samples": samples}


ZONES = ["UTC", "Africa/Lagos", "Asia/Jakarta", "Etc/GMT-7", "Etc/GMT+5", "Europe/London", "America/New_York",
         "Australia/Lord_Howe", "Asia/Kolkata", "Asia/Kathmandu", "America/St_Johns", "Europe/Amsterdam", "Asia/Singapore",
         "Pacific/Apia", "America/Sao_Paulo"]


def run_C11(repo, tier, seed):
    L = _load(repo)
    rng = random.Random(seed)
    ev = 0
    failures, samples = [], []
    # 1. timestamps: every existing, unambiguous local wall time renders back to its text
    zones = ZONES if tier != "quick" else ZONES[:9]
    for zname in zones:
        tz = pytz.timezone(zname)
        for _ in range(40 if tier == "quick" else 400):
            e = rng.randrange(-631152000, 1893456000)     # 1950 .. 2030
            local = dt.datetime.fromtimestamp(e, pytz.utc).astimezone(tz)
            textv = local.strftime("%Y-%m-%d %H:%M:%S")
            naive = dt.datetime.strptime(textv, "%Y-%m-%d %H:%M:%S")
            try:
                a = tz.localize(naive, is_dst=True)
                b = tz.localize(naive, is_dst=False)
                ambiguous = a.utcoffset() != b.utcoffset()
            except Exception:
                continue
            if ambiguous:
                continue
            ev += 1
            try:
                rows = list(L.generate_timestamped_rows([[textv, "1.0"]], tz))
            except ValueError as ex:
                # zones whose offset is not a whole number of seconds... (LMT): refusal is allowed by the code
                continue
            got = rows[0][0]
            back = dt.datetime.fromtimestamp(got, pytz.utc).astimezone(tz).strftime("%Y-%m-%d %H:%M:%S")
            if not isinstance(got, int) or back != textv:
                failures.append({"key": "timestamp-" + zname, "input": {"zone": zname, "text": textv},
                                 "observed": "stored instant %r renders as %r in %s, the input text was %r" % (got, back, zname, textv)})
                break
        if len(samples) < 2:
            samples.append({"zone": zname})
    # 1b. whole files: rows before and after a change of UTC offset on the same calendar day, converted in ONE call
    # (a conversion that carries anything over from one row to the next -- a cached offset -- shows here)
    for zname in zones:
        tz = pytz.timezone(zname)
        trans = [t for t in getattr(tz, "_utc_transition_times", []) if 1951 <= t.year <= 2029]
        rng.shuffle(trans)
        for t in trans[:(3 if tier == "quick" else 12)]:
            e0 = int((t - dt.datetime(1970, 1, 1)).total_seconds())
            texts, instants = [], []
            for k in range(-6, 9):
                e = e0 + k * 1800
                textv = dt.datetime.fromtimestamp(e, pytz.utc).astimezone(tz).strftime("%Y-%m-%d %H:%M:%S")
                naive = dt.datetime.strptime(textv, "%Y-%m-%d %H:%M:%S")
                try:
                    if tz.localize(naive, is_dst=True).utcoffset() != tz.localize(naive, is_dst=False).utcoffset():
                        continue            # ambiguous wall time (offset going back): outside the property's quantifier
                except Exception:
                    continue
                texts.append(textv)
                instants.append(e)
            if len(texts) < 2:
                continue
            ev += 1
            try:
                rows = list(L.generate_timestamped_rows([[x, "1.0"] for x in texts], tz))
            except ValueError:
                continue                    # offsets that are not whole seconds (LMT): refusal is allowed by the code
            got = [r[0] for r in rows]
            if got != instants:
                bad = next(i for i in range(len(texts)) if i >= len(got) or got[i] != instants[i])
                failures.append({"key": "file-across-offset-change-" + zname,
                                 "input": {"zone": zname, "texts": texts},
                                 "observed": "row %d (%r) stored as %r, the instant rendering as that text in %s is %r"
                                             % (bad, texts[bad], got[bad] if bad < len(got) else None, zname, instants[bad])})
                break
    # 2. refusals
    step = 1800
    E0 = pipeline.E0
    rain = [(E0 + k * step, 0.0) for k in range(10)]
    et = [(E0 + k * step, 0.1) for k in range(-1, 12)]
    wl = [(E0 + k * step, -100.0) for k in range(1, 8)]
    tz = pytz.utc

    def attempt(r, e, w, con=None):
        con = con or sqlite3.connect(":memory:")
        try:
            L.load_data(con, text(r, "datetime,p", tz), text(e, "datetime,et", tz), text(w, "datetime,z", tz), "UTC")
            return con, None
        except Exception as ex:
            return con, ex
    for variant, r2 in (("rain-step-changes", [x for i, x in enumerate(rain) if i != 4]),
                        ("rain-one-late", rain[:5] + [(rain[5][0] + 60, 0.0)] + rain[6:])):
        ev += 1
        con, ex = attempt(r2, et, wl)
        if not isinstance(ex, ValueError):
            failures.append({"key": "nonuniform-not-refused-" + variant, "input": {"variant": variant}, "observed": "non-uniform rainfall steps were not refused: %r" % (ex,)})
    for miss in (3, 7):
        ev += 1
        con, ex = attempt(rain, [x for x in et if x[0] != E0 + miss * step], wl)
        if not isinstance(ex, ValueError):
            failures.append({"key": "missing-et-not-refused", "input": {"missing_step": miss}, "observed": "missing ET for a grid step was not refused: %r" % (ex,)})
    ev += 1
    con, ex = attempt(rain, et, wl)
    if ex is not None:
        failures.append({"key": "good-refused", "input": {}, "observed": "well-formed input refused: %r" % (ex,)})
    else:
        before = "\n".join(con.iterdump())
        con2, ex2 = attempt(rain, et, wl, con=con)
        if not isinstance(ex2, ValueError):
            failures.append({"key": "second-load-not-refused", "input": {}, "observed": "loading into a populated dataset was not refused: %r" % (ex2,)})
        elif "\n".join(con.iterdump()) != before:
            failures.append({"key": "second-load-merged", "input": {}, "observed": "refused second load changed the dataset"})
    return {"bound": "%d zones (fixed-offset, DST, half-hour, LMT-era) x seeded instants 1950-2030; 2 non-uniform rainfall variants, 2 missing-ET variants, double load" % len(zones),
            "evaluations": ev, "distinct": ev, "exhaustive": False, "failures": failures[:3], "samples": samples}


def replay(repo, rec):
    if rec["property"] == "C10" and isinstance(rec.get("input"), dict) and "wl_times" in rec["input"]:
        r = run_case_C10(repo, rec["input"])
        for x in r or []:
            print("  ", x)
        return not r
    fn = globals()["run_" + rec["property"]]
    return not fn(repo, "quick", 0)["failures"]
