"""Bounded validation for C16: PEATCLSM specific yield and transmissivity against an independent
transcription of the reference R script (spowtd/test/peatclsm_hydraulic_functions.R), for the
published parameter set and seeded parameter sets inside the PEST calibration bounds."""
import math
import random
import sys

import numpy as np
from scipy.stats import norm


def _mods(repo):
    if repo not in sys.path:
        sys.path.insert(0, repo)
    import importlib
    return importlib.import_module("spowtd.specific_yield"), importlib.import_module("spowtd.transmissivity")


def r_reference(sd, theta_s, b, psi_s):
    """Transcription of the R functions (get_Sy_soil, campbell_1d_az, Sy surface) with the Python
    table layout (201 cells; the R inner loop runs over cells 1:200 — the 201st cell contributes
    (1 - Phi(1.005 / sd)) * ... which is reported separately)."""
    zl_ = np.linspace(-1, 1, 201)
    zu_ = np.linspace(-0.99, 1.01, 201)
    zm = 0.5 * (zl_ + zu_)
    Fs = norm.cdf(zm, 0, sd)
    dz = zu_ - zl_

    def A(zlu, j):
        if (zlu - zm[j]) * 100 >= psi_s * 100:
            th = theta_s
        else:
            th = theta_s * (((zlu - zm[j]) * 100) / (psi_s * 100)) ** (-1 / b)
        return (1 - Fs[j]) * th
    soil = np.array([sum(dz[j] * (A(zu_[i], j) - A(zl_[i], j)) for j in range(201)) / dz[i] for i in range(201)])
    soil200 = np.array([sum(dz[j] * (A(zu_[i], j) - A(zl_[i], j)) for j in range(200)) / dz[i] for i in range(201)])
    return zm * 1000, soil + Fs, float(np.max(np.abs(soil - soil200)))


def run_C16(repo, tier, seed):
    sy_mod, t_mod = _mods(repo)
    rng = random.Random(seed)
    ev = 0
    failures, samples = [], []
    sets = [dict(sd=0.162, theta_s=0.88, b=7.4, psi_s=-0.024)]
    for _ in range(1 if tier == "quick" else 10):
        sets.append(dict(sd=rng.uniform(0.05, 1.5), theta_s=rng.uniform(0.3, 0.99), b=rng.uniform(1.0, 18.0), psi_s=rng.uniform(-0.9, -0.011)))
    # the value is a function of the parameters alone, not of what was constructed earlier in the same process: every
    # parameter varied one at a time after the published set, and the published set again at the end
    base = sets[0]
    for name, val in (("sd", 0.05), ("sd", 0.4), ("theta_s", 0.7), ("b", 3.0), ("psi_s", -0.1)):
        sets.append(dict(base, **{name: val}))
    sets.append(dict(base))
    extra_terms = []
    for p in sets:
        try:
            f = sy_mod.PeatclsmSpecificYield(**p)
        except Exception as e:
            failures.append({"key": "raised-" + type(e).__name__, "input": p, "observed": "constructor raised %s: %s" % (type(e).__name__, e)})
            continue
        knots, want, extra = r_reference(**p)
        extra_terms.append(extra)
        ev += 1
        if len(f.zeta_knots_mm) != 201 or np.max(np.abs(np.asarray(f.zeta_knots_mm) - knots)) > 1e-9:
            failures.append({"key": "levels", "input": p, "observed": "tabulated levels differ from the 201 cell mid-points"})
        if np.max(np.abs(np.asarray(f.sy_knots) - want)) > 1e-9:
            failures.append({"key": "table", "input": p, "observed": "max |Sy - reference| = %r" % float(np.max(np.abs(np.asarray(f.sy_knots) - want)))})
        for z in (knots[0] - 50.0, knots[-1] + 50.0):
            if abs(float(f(z)) - float(f(knots[0] if z < 0 else knots[-1]))) > 1e-12:
                failures.append({"key": "constant-beyond", "input": p, "observed": "not constant beyond the table"})
        k = 57
        mid = 0.5 * (knots[k] + knots[k + 1])
        if abs(float(f(mid)) - 0.5 * (want[k] + want[k + 1])) > 1e-9:
            failures.append({"key": "linear-between", "input": p, "observed": "not linear between tabulated levels"})
        if len(samples) < 2:
            samples.append(p)
    for (K0, alpha, zmax) in [(7.3, 3.0, 1.0), (rng.uniform(0.1, 50), rng.uniform(1.05, 12), rng.uniform(0.0, 10.0))]:
        T = t_mod.PeatclsmTransmissivity(Ksmacz0=K0, alpha=alpha, zeta_max_cm=zmax)
        for z_mm in (-500.0, -10.0, zmax * 10 - 1e-6, np.array([-300.0, -20.0])):
            ev += 1
            got = T(z_mm)
            want = K0 * (zmax - np.asarray(z_mm) / 10) ** (1 - alpha) / (100 * (alpha - 1))
            if np.max(np.abs(got - want)) > 1e-12 * np.max(np.abs(want)):
                failures.append({"key": "transmissivity", "input": dict(Ksmacz0=K0, alpha=alpha, zeta_max_cm=zmax, z_mm=repr(z_mm)), "observed": "%r vs %r" % (got, want)})
        try:
            T(zmax * 10 + 0.5)
            failures.append({"key": "not-refused", "input": dict(zeta_max_cm=zmax), "observed": "level above zeta_max accepted"})
        except ValueError:
            pass
    return {"bound": "published parameter set + %d seeded sets within the PEST bounds; 2 transmissivity parameter sets" % (len(sets) - 1),
            "evaluations": ev, "distinct": len(sets), "exhaustive": False, "failures": failures[:3], "samples": samples,
            "note": "R inner loop covers cells 1:200, Python 201: max contribution of the extra cell over the table = %r" % (max(extra_terms) if extra_terms else None)}


def replay(repo, rec):
    return not run_C16(repo, "quick", 0)["failures"]
