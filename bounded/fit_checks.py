"""Bounded stand-ins for C05 / C08 on the real fit_offsets functions: every overlap structure of
<= 4 series over <= 6 levels (each series covers a contiguous level range), crossing values from a
small lattice, plus seeded random structures.  The normal equations are re-derived exactly with
fractions and compared with the returned offsets."""
import itertools
import random
import sys
import traceback
from fractions import Fraction

import numpy as np


def _mod(repo):
    if repo not in sys.path:
        sys.path.insert(0, repo)
    import importlib
    return importlib.import_module("spowtd.fit_offsets")


def components(ranges):
    """Connected components (lists of series indices) of 'share a level'."""
    n = len(ranges)
    seen, comps = set(), []
    for s in range(n):
        if s in seen:
            continue
        comp, todo = [], [s]
        while todo:
            x = todo.pop()
            if x in seen:
                continue
            seen.add(x)
            comp.append(x)
            for y in range(n):
                if y not in seen and not (ranges[x][1] < ranges[y][0] or ranges[y][1] < ranges[x][0]):
                    todo.append(y)
        comps.append(sorted(comp))
    return comps


def head_mapping_of(ranges, values):
    """level -> [(series, crossing value)] for series s covering levels ranges[s][0]..ranges[s][1]."""
    m = {}
    for s, (lo, hi) in enumerate(ranges):
        for h in range(lo, hi + 1):
            m.setdefault(h, []).append((s, values[s][h - lo]))
    return m


def objective(mapping, off):
    tot = Fraction(0)
    for h, seq in mapping.items():
        if len(seq) < 2:
            continue
        vals = [Fraction(v) + off[s] for s, v in seq]
        mean = sum(vals) / len(vals)
        tot += sum((v - mean) ** 2 for v in vals)
    return tot


def resid_sums(mapping, off, series):
    out = {}
    for s in series:
        tot = Fraction(0)
        for h, seq in mapping.items():
            if len(seq) < 2 or s not in [x for x, _ in seq]:
                continue
            vals = {x: Fraction(v) + off[x] for x, v in seq}
            mean = sum(vals.values()) / len(vals)
            tot += vals[s] - mean
        out[s] = tot
    return out


def check_find_offsets(fo, ranges, values):
    """C05 on find_offsets for a connected structure.  Returns failure text or None."""
    mapping = head_mapping_of(ranges, values)
    kept = {h: list(seq) for h, seq in mapping.items() if len(seq) >= 2}
    arg = {h: list(seq) for h, seq in mapping.items()}
    try:
        sids, offs = fo.find_offsets(arg)
    except Exception as e:
        tb = traceback.extract_tb(e.__traceback__)[-1]
        return "find_offsets raised %s: %s (%s:%d)" % (type(e).__name__, e, tb.name, tb.lineno)
    if sorted(arg) != sorted(kept):
        return "levels kept %r, expected the levels with >= 2 crossings %r" % (sorted(arg), sorted(kept))
    series = sorted({s for seq in kept.values() for s, _ in seq})
    if list(sids) != series:
        return "series ids %r, expected %r" % (list(sids), series)
    if abs(offs[-1]) != 0.0:
        return "reference offset %r != 0" % offs[-1]
    off = {s: Fraction(float(o)).limit_denominator(10**9) for s, o in zip(sids, offs)}
    # every interval's residuals against the master curve sum to zero (<=> normal equations)
    rs = resid_sums(kept, {s: Fraction(float(o)) for s, o in zip(sids, offs)}, series)
    scale = max(1.0, max(abs(float(v)) for seq in kept.values() for _, v in seq))
    if max(abs(float(r)) for r in rs.values()) > 1e-7 * scale * len(kept):
        return "residual sums per interval not zero: %r" % ({s: float(r) for s, r in rs.items()},)
    # minimality against perturbations
    base = objective(kept, {s: Fraction(float(o)) for s, o in zip(sids, offs)})
    for s in series[:-1]:
        for d in (Fraction(1, 7), Fraction(-1, 3)):
            o2 = {x: Fraction(float(o)) for x, o in zip(sids, offs)}
            o2[s] += d
            if objective(kept, o2) < base - Fraction(1, 10**7) * (1 + abs(base)):
                return "offsets are not a minimiser: perturbing series %d by %s lowers the objective" % (s, d)
    return None


def check_series(fo, ranges, values, step=1.0):
    """C08 on get_series_time_offsets.  Series s crosses levels hi..lo (falling) at times values[s]
    (strictly increasing in time as the level falls).  Returns (failure or None)."""
    def mk(order=None, shifts=None):
        lst = []
        for s, (lo, hi) in enumerate(ranges):
            # samples exactly on levels hi+0.5 (before), then between levels: crossing of level h at values[s][hi-h]
            hs = [hi + 0.5] + [h - 0.5 for h in range(hi, lo - 1, -1)]
            # choose sample times so that the linear interpolant crosses level h at the wanted time
            want = [values[s][hi - h] for h in range(hi, lo - 1, -1)]
            ts = [want[0] - 1.0]
            for k, w in enumerate(want):
                # crossing of level between samples k and k+1 is the midpoint in level, so time midpoint
                ts.append(2 * w - ts[-1])
            t = np.array(ts, dtype=float) + (shifts[s] if shifts else 0.0)
            lst.append((t, np.array(hs, dtype=float) * step))
        if order:
            lst = [lst[i] for i in order]
        return lst
    def run(lst):
        try:
            return fo.get_series_time_offsets(lst, step), None
        except Exception as e:
            tb = traceback.extract_tb(e.__traceback__)[-1]
            return None, "%s: %s (%s:%d)" % (type(e).__name__, e, tb.name, tb.lineno)
    # sample times must be increasing for the construction to be a valid series
    base = mk()
    if any(np.any(np.diff(t) <= 0) for t, _ in base):
        return "skip"
    comps = components(ranges)
    # the main body: the component with the most members that has at least two series; ties -> skip
    multi = [c for c in comps if len(c) >= 2]
    if not multi:
        return "skip"
    res, err = run(base)
    if err:
        return "get_series_time_offsets raised %s although a group of overlapping intervals exists (components %r)" % (err, comps)
    idx, offs, mp = res
    sizes = sorted((len(c) for c in comps), reverse=True)
    got = sorted(idx)
    if got not in multi and got not in comps:
        return "returned intervals %r are not one connected group (components %r)" % (got, comps)
    if got not in multi:
        return "returned group %r has a single interval" % (got,)
    # every interval of the chosen group is included, and nothing else (checked above); relative
    # alignment independent of order / per-interval time shift
    rel = {i: o - offs[0] for i, o in zip(idx, offs)}
    n = len(ranges)
    perm = list(range(n))[::-1]
    res2, err2 = run(mk(order=perm))
    if err2:
        return "raised %s after permuting the intervals" % err2
    idx2, offs2, _ = res2
    back = {perm[i]: o for i, o in zip(idx2, offs2)}
    if sorted(back) == got:
        d = [back[i] - back[idx[0]] - rel[i] for i in idx]
        if max(abs(x) for x in d) > 1e-6 * max(1.0, max(abs(v) for v in rel.values())):
            return "relative alignment changes with the order of the intervals: %r" % d
    elif sorted(len(c) for c in multi).count(len(got)) == 1 and len(got) == max(len(c) for c in multi):
        return "a different group is chosen after permutation: %r vs %r" % (sorted(back), got)
    shifts = [37.0 * (s + 1) for s in range(n)]
    res3, err3 = run(mk(shifts=shifts))
    if err3:
        return "raised %s after shifting the intervals' own time axes" % err3
    idx3, offs3, mp3 = res3
    if sorted(idx3) == got:
        o3 = dict(zip(idx3, offs3))
        d = [o3[i] - o3[idx[0]] - rel[i] for i in idx]
        if max(abs(x) for x in d) > 1e-6 * max(1.0, max(abs(v) for v in rel.values())):
            return "relative alignment changes when an interval's own time axis is shifted: %r" % d
    return None


def structures(tier, seed):
    rng = random.Random(seed)
    L = 5
    ranges_all = [(lo, hi) for lo in range(L) for hi in range(lo, L)]
    out = []
    for k in (2, 3):
        for combo in itertools.combinations_with_replacement(ranges_all, k):
            out.append(list(combo))
    if tier != "quick":
        for combo in itertools.combinations(ranges_all, 4):
            out.append(list(combo))
    else:
        out = rng.sample(out, 250) + [[(0, 19), (30, 34), (32, 36)], [(0, 2), (2, 4), (4, 6), (10, 12)]]
    return out


def run_C05(repo, tier, seed):
    fo = _mod(repo)
    rng = random.Random(seed)
    ev = 0
    failures, samples, distinct = [], [], set()
    for ranges in structures(tier, seed):
        if len(components(ranges)) != 1 or len(ranges) < 2:
            continue
        values = [[float(rng.randint(-20, 20)) + 0.25 * rng.randint(0, 3) for _ in range(hi - lo + 1)] for lo, hi in ranges]
        if not any(len(seq) >= 2 for seq in head_mapping_of(ranges, values).values()):
            continue
        ev += 1
        distinct.add(tuple(ranges))
        r = check_find_offsets(fo, ranges, values)
        if len(samples) < 2:
            samples.append({"level_ranges": ranges, "crossings": values})
        if r:
            failures.append({"key": "C05:" + r.split(":")[0][:40], "input": {"level_ranges": ranges, "crossings": values}, "observed": r})
            if len(failures) >= 3:
                break
        # the same structure with every series crossing one shared level at exactly the same value (intervals that start on
        # a grid level all cross it at 0): the equations of that level have a zero right-hand side and still bind the offsets
        shared = [L for L in range(min(lo for lo, _ in ranges), max(hi for _, hi in ranges) + 1)
                  if sum(1 for lo, hi in ranges if lo <= L <= hi) >= 2]
        if shared:
            L = shared[rng.randrange(len(shared))]
            tied = [list(v) for v in values]
            for i, (lo, hi) in enumerate(ranges):
                if lo <= L <= hi:
                    tied[i][L - lo] = 0.0
            ev += 1
            r = check_find_offsets(fo, ranges, tied)
            if r:
                failures.append({"key": "C05:tied-level:" + r.split(":")[0][:30], "input": {"level_ranges": ranges, "crossings": tied, "tied_level": L}, "observed": r})
                if len(failures) >= 3:
                    break
    return {"bound": "connected overlap structures of 2-3 (thorough: 4) series with contiguous level ranges within 5 levels, crossing values on a quarter lattice, each also with one shared level crossed at the same value by all its series",
            "evaluations": ev, "distinct": len(distinct), "exhaustive": False, "failures": failures, "samples": samples}


def check_components(fo, tier, seed):
    """get_connected_components (assumed contract in the proofs) against an independent union-find, for every
    assignment of non-empty series sets to 3 (thorough: 4) levels over 3 series and EVERY insertion order of the
    levels (the function folds over the dictionary in insertion order: a level that bridges two groups formed
    earlier only occurs for some orders).  Expected: the groups are exactly the classes of 'levels sharing a
    series, transitively', each once, none with fewer series listed before one with more."""
    subsets = [frozenset(c) for r in (1, 2, 3) for c in itertools.combinations(range(3), r)]
    nlev = 3 if tier == "quick" else 4
    rng = random.Random(seed)
    ev = 0
    for assign in itertools.product(subsets, repeat=nlev):
        orders = list(itertools.permutations(range(nlev)))
        if tier == "quick" and nlev == 3:
            pass
        for order in orders:
            mapping = {}
            for lv in order:
                mapping[10 + lv] = set(assign[lv])
            ev += 1
            try:
                got = fo.get_connected_components(dict((k, set(v)) for k, v in mapping.items()))
            except Exception as e:
                return ev, {"key": "C08:components-raised", "input": {"levels": {str(k): sorted(v) for k, v in mapping.items()}, "order": list(mapping)},
                            "observed": "get_connected_components raised %s: %s" % (type(e).__name__, e)}
            # independent classes
            parent = {k: k for k in mapping}

            def find(x):
                while parent[x] != x:
                    parent[x] = parent[parent[x]]
                    x = parent[x]
                return x
            keys = list(mapping)
            for a in keys:
                for b in keys:
                    if a < b and mapping[a] & mapping[b]:
                        parent[find(a)] = find(b)
            classes = {}
            for k in keys:
                classes.setdefault(find(k), set()).add(k)
            want = sorted(sorted(c) for c in classes.values())
            have = sorted(sorted(c) for c in got)
            nser = [len(set().union(*[mapping[k] for k in c])) for c in got]
            if have != want or any(a < b for a, b in zip(nser, nser[1:])):
                return ev, {"key": "C08:components-wrong", "input": {"levels": {str(k): sorted(v) for k, v in mapping.items()}, "order": list(mapping)},
                            "observed": "groups %r (series counts %r); the classes of levels connected through shared series are %r" % (
                                [list(c) for c in got], nser, want)}
    return ev, None


def run_C08(repo, tier, seed):
    fo = _mod(repo)
    rng = random.Random(seed + 1)
    ev = 0
    failures, samples, distinct = [], [], set()
    n_cc, bad = check_components(fo, tier, seed)
    ev += n_cc
    if bad:
        failures.append(bad)
    for ranges in structures(tier, seed):
        values = []
        for lo, hi in ranges:
            t0 = rng.uniform(0, 50)
            vs = [t0]
            for _ in range(hi - lo):
                vs.append(vs[-1] + rng.choice([3.0, 5.0, 8.0]))
            values.append(vs)
        r = check_series(fo, ranges, values)
        if r == "skip":
            continue
        ev += 1
        distinct.add(tuple(ranges))
        if len(samples) < 2:
            samples.append({"level_ranges": ranges})
        if r:
            failures.append({"key": "C08:" + r.split(":")[0][:40].replace(" ", "_"), "input": {"level_ranges": ranges, "crossings": values}, "observed": r})
            if len(failures) >= 3:
                break
    return {"bound": "get_connected_components on every assignment of series sets to 3 (thorough: 4) levels in every insertion order (%d calls); "
                     "overlap structures (connected and disconnected) of 2-3 (thorough: 4) intervals over 5 levels + 2 directed cases" % n_cc,
            "evaluations": ev, "distinct": len(distinct), "exhaustive": False, "failures": failures, "samples": samples}


def replay(repo, rec):
    fo = _mod(repo)
    inp = rec["input"]
    if "levels" in inp:
        mapping = {int(k): set(inp["levels"][str(k)]) for k in inp["order"]}
        got = sorted(sorted(c) for c in fo.get_connected_components(mapping))
        print("   get_connected_components ->", got)
        n_cc, bad = check_components(fo, "thorough", 0)
        return bad is None
    if rec["property"] == "C05":
        r = check_find_offsets(fo, [tuple(x) for x in inp["level_ranges"]], inp["crossings"])
    else:
        r = check_series(fo, [tuple(x) for x in inp["level_ranges"]], inp["crossings"])
    if r and r != "skip":
        print("  ", r)
        return False
    return True
