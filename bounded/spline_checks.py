"""Bounded validation of the assumed FITPACK contracts behind C14 / C15 and of the clauses that
rest on them entirely (knot interpolation): the real Spline / SplineSpecificYield objects are
compared with independent quadrature of their own __call__."""
import itertools
import random
import sys

import numpy as np


def _mods(repo):
    if repo not in sys.path:
        sys.path.insert(0, repo)
    import importlib
    return importlib.import_module("spowtd.spline"), importlib.import_module("spowtd.specific_yield")


def knot_sets(tier, seed):
    rng = random.Random(seed)
    yield [0.0, 0.5, 1.2, 2.0, 3.0], [0.1, 0.3, 0.25, 0.6, 0.2]
    yield [-291.7, -183.1, -15.74, 10.65, 38.78, 168.3], [0.13, 0.18, 0.33, 0.55, 0.71, 0.9]
    for _ in range(6 if tier == "quick" else 60):
        n = rng.randint(4, 8)
        xs = sorted(rng.uniform(-300, 300) for _ in range(n))
        if min(b - a for a, b in zip(xs, xs[1:])) < 1e-3:
            continue
        yield xs, [rng.uniform(0.0, 1.0) for _ in range(n)]


def run_C14(repo, tier, seed):
    from scipy.integrate import quad
    spl, sy = _mods(repo)
    ev = 0
    failures, samples = [], []
    distinct = set()
    for xs, ys in knot_sets(tier, seed):
        f = sy.SplineSpecificYield(zeta_knots_mm=list(xs), sy_knots=list(ys))
        span = xs[-1] - xs[0]
        case = {"zeta_knots_mm": xs, "sy_knots": ys}
        # knots, constancy outside
        for x, y in zip(xs, ys):
            ev += 1
            if abs(float(f(x)) - y) > 1e-9 * max(1, abs(y)):
                failures.append({"key": "knot", "input": case, "observed": "f(%r)=%r, knot value %r" % (x, float(f(x)), y)})
        for d in (1e-6, 1.0, 0.7 * span):
            ev += 2
            if abs(float(f(xs[0] - d)) - ys[0]) > 1e-9 or abs(float(f(xs[-1] + d)) - ys[-1]) > 1e-9:
                failures.append({"key": "constant-outside", "input": case, "observed": "not constant outside the knot range"})
        pts = [xs[0] - 0.6 * span, xs[0] - 1.0, xs[0], xs[0] + 0.3 * span, xs[-1] - 0.2 * span, xs[-1], xs[-1] + 2.0, xs[-1] + 0.5 * span]
        for a, b in itertools.product(pts, repeat=2):
            ev += 1
            got = f.integrate(a, b)
            brk = sorted(set([a, b] + [k for k in xs if min(a, b) < k < max(a, b)]))
            want = sum(quad(lambda z: float(f(z)), p, q, epsabs=1e-12, epsrel=1e-12)[0] for p, q in zip(brk, brk[1:]))
            want = want if a <= b else -want
            distinct.add((tuple(xs), a, b))
            if abs(got - want) > 1e-7 * max(1.0, abs(want)):
                failures.append({"key": "integral", "input": dict(case, a=a, b=b), "observed": "integrate(%r,%r)=%r, area %r" % (a, b, got, want)})
        for a, b, c in itertools.permutations(pts[:6], 3):
            ev += 1
            if abs(f.integrate(a, c) - (f.integrate(a, b) + f.integrate(b, c))) > 1e-8 * max(1.0, abs(f.integrate(a, c))):
                failures.append({"key": "additive", "input": dict(case, a=a, b=b, c=c), "observed": "not additive"})
        if len(samples) < 2:
            samples.append(case)
        if len(failures) > 3:
            break
    return {"bound": "2 fixed + %d seeded knot sets (4-8 knots) x 8x8 limit pairs around / beyond the knot range" % (6 if tier == "quick" else 60),
            "evaluations": ev, "distinct": len(distinct), "exhaustive": False, "failures": failures[:3], "samples": samples}


def replay(repo, rec):
    r = run_C14(repo, "quick", 0)
    return not r["failures"]
