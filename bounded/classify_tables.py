"""Bounded stand-in (labelled bounded, never counted as proved): the table-level statements of
C01-C04 checked natively on the real workflow (text files -> load_data -> classify_intervals)
over all small datasets, plus seeded random larger ones.

The oracle below is written from the property statements, independently of spowtd's code:
plain loops over the loaded tables.
"""
import itertools
import random
import sqlite3
import traceback

from pyvc import pipeline

STEP = 1800
S_THR, J_THR = 4.0, 8.0          # mm/h ; jump threshold per step = 8 * 0.5 = 4 mm


def stretches(con):
    """label -> list of (epoch, zeta, rain) for the samples of that gap-free stretch."""
    rows = con.execute("""
        SELECT gt.data_interval, wl.epoch, wl.zeta_mm, ri.rainfall_intensity_mm_h
        FROM grid_time gt JOIN water_level wl ON wl.epoch = gt.epoch
        JOIN rainfall_intensity ri ON ri.from_epoch = gt.epoch
        WHERE gt.data_interval IS NOT NULL ORDER BY wl.epoch""").fetchall()
    out = {}
    for d, e, z, r in rows:
        out.setdefault(d, []).append((e, z, r))
    return out


def runs(flags):
    out, i, n = [], 0, len(flags)
    while i < n:
        if flags[i]:
            j = i
            while j < n and flags[j]:
                j += 1
            out.append((i, j))
            i = j
        else:
            i += 1
    return out


def expected(con, s_thr, j_thr):
    step = con.execute("SELECT time_step_s FROM time_grid").fetchone()[0]
    jd = j_thr * step / 3600.0
    storms, rises, cands, flags, interstorms = {}, {}, [], {}, []
    for d, rows in stretches(con).items():
        e = [r[0] for r in rows]
        z = [r[1] for r in rows]
        rain = [r[2] for r in rows]
        n = len(e)
        sr = runs([x > s_thr for x in rain])
        inc = [z[i + 1] - z[i] > jd for i in range(n - 1)]
        rr = runs(inc)
        for a, b in sr:
            storms[e[a]] = (e[b - 1] + step, (a, b), d)
        for a, b in rr:                       # increments a..b-1  -> samples a..b
            rises[e[a]] = (e[b], (a, b), d)
        for (a, b) in sr:
            for (a2, b2) in rr:
                if max(a, a2) < min(b, b2):   # a step inside both
                    cands.append((e[a], e[a2]))
        # C04 flags
        raining = [x > 0 for x in rain]
        is_jump = [False] + [z[i] - z[i - 1] > j_thr * (e[i] - e[i - 1]) / 3600.0 for i in range(1, n)]
        settled = False
        inter = []
        for i in range(n):
            if raining[i]:
                settled = True
            elif is_jump[i]:
                settled = False
            inter.append(settled and not raining[i])
            flags[e[i]] = (int(is_jump[i]), int(not settled), int(inter[i]))
        for a, b in runs(inter):
            if b - a >= 2:
                interstorms.append((e[a], e[b - 1]))
    return dict(step=step, storms=storms, rises=rises, cands=cands, flags=flags, interstorms=sorted(interstorms))


def check_db(con, s_thr, j_thr, props=("C01", "C02", "C03", "C04")):
    """Returns a list of (property, message)."""
    bad = []
    exp = expected(con, s_thr, j_thr)
    step = exp["step"]
    storm_rows = con.execute("SELECT start_epoch, thru_epoch FROM storm").fetchall()
    rise_rows = con.execute("SELECT start_epoch, thru_epoch FROM zeta_interval WHERE interval_type='storm'").fetchall()
    pair_rows = con.execute("SELECT storm_start_epoch, interval_start_epoch FROM zeta_interval_storm").fetchall()
    if "C03" in props:
        for s, t in storm_rows:
            if s not in exp["storms"] or exp["storms"][s][0] != t:
                bad.append(("C03", "storm (%d,%d) is not a maximal run of rain above the threshold" % (s, t)))
        for s, t in rise_rows:
            if s not in exp["rises"] or exp["rises"][s][0] != t:
                bad.append(("C03", "rise (%d,%d) is not a maximal run of increments above threshold*step" % (s, t)))
        for s, depth in con.execute("SELECT storm_start_epoch, total_depth_mm FROM storm_total_rain_depth"):
            if s in exp["storms"]:
                want = sum(r * (t - f) / 3600.0 for f, t, r in con.execute(
                    "SELECT from_epoch, thru_epoch, rainfall_intensity_mm_h FROM rainfall_intensity "
                    "WHERE from_epoch >= ? AND from_epoch < ?", (s, exp["storms"][s][0])))
                if abs(want - depth) > 1e-9 * max(1.0, abs(want)):
                    bad.append(("C03", "rain depth of storm %d is %r, expected %r" % (s, depth, want)))
    if "C01" in props:
        ss = [p[0] for p in pair_rows]
        jj = [p[1] for p in pair_rows]
        if len(set(ss)) != len(ss) or len(set(jj)) != len(jj):
            bad.append(("C01", "a storm or a rise occurs in more than one pair: %r" % (pair_rows,)))
        for s, j in pair_rows:
            if (s, j) not in exp["cands"]:
                bad.append(("C01", "pair (storm %d, rise %d) shares no time step" % (s, j)))
        if sorted(ss) != sorted(r[0] for r in storm_rows) or sorted(jj) != sorted(r[0] for r in rise_rows):
            bad.append(("C01", "storm / rise tables and pairing table disagree"))
    if "C02" in props and not any(b[0] == "C01" for b in bad):
        m_s = {s: j for s, j in pair_rows}
        m_j = {j: s for s, j in pair_rows}

        def dur_s(s):
            return exp["storms"][s][0] - s

        def dur_j(j):
            return exp["rises"][j][0] - j
        for s, j in exp["cands"]:
            if m_s.get(s) == j:
                continue
            storm_wants = s not in m_s or abs(dur_s(s) - dur_j(j)) < abs(dur_s(s) - dur_j(m_s[s]))
            rise_wants = j not in m_j or abs(j - s) < abs(j - m_j[j])
            if storm_wants and rise_wants:
                bad.append(("C02", "blocking pair: storm %d (matched to %r) and rise %d (matched to %r)" % (
                    s, m_s.get(s), j, m_j.get(j))))
    if "C04" in props:
        got = {r[0]: tuple(r[1:]) for r in con.execute(
            "SELECT start_epoch, is_jump, is_mystery_jump, is_interstorm FROM grid_time_flags")}
        if got != exp["flags"]:
            diff = [(k, got.get(k), exp["flags"].get(k)) for k in sorted(set(got) | set(exp["flags"])) if got.get(k) != exp["flags"].get(k)]
            bad.append(("C04", "flags differ (epoch, stored, expected): %r" % (diff[:4],)))
        inter = sorted(con.execute("SELECT start_epoch, thru_epoch FROM zeta_interval WHERE interval_type='interstorm'").fetchall())
        if [tuple(x) for x in inter] != exp["interstorms"]:
            bad.append(("C04", "interstorm intervals %r, expected %r" % (inter[:6], exp["interstorms"][:6])))
    return bad


def run_case(repo, case, props=("C01", "C02", "C03", "C04")):
    """case: dict(rains, heads, present, s_thr, j_thr, step, t0).  Returns list of (property, message)."""
    m = pipeline.mods(repo)
    step = case.get("step", STEP)
    rain, et, wl = pipeline.dataset(step, case["rains"], case["heads"], case.get("present"), t0=case.get("t0", pipeline.E0))
    if case.get("wl_halfsteps") is not None:
        # water level sampled at arbitrary half-step positions (off the rainfall grid)
        t0 = case.get("t0", pipeline.E0)
        wl = [(t0 + h * step // 2, v) for h, v in case["wl_halfsteps"]]
    try:
        con = pipeline.load(repo, rain, et, wl)
    except Exception as e:   # refused by load: outside the quantifier ("every dataset that loads")
        return None
    if con.execute("SELECT count(*) FROM water_level").fetchone()[0] == 0:
        # no gridded water-level sample at all: nothing to classify; spowtd refuses such a dataset
        # with its explicit "No valid data intervals found" (read as outside C01's quantifier, DESIGN 6/C01)
        return None
    try:
        m["classify"].classify_intervals(con, case.get("s_thr", S_THR), case.get("j_thr", J_THR))
    except Exception as e:
        tb = traceback.extract_tb(e.__traceback__)[-1]
        return [("C01", "classification raised %s: %s (%s:%d)" % (type(e).__name__, str(e)[:120], tb.name, tb.lineno))]
    return check_db(con, case.get("s_thr", S_THR), case.get("j_thr", J_THR), props)


def cases(tier, seed):
    """Exhaustive: n <= 4 (quick) / 5 (thorough) grid steps, rain in {0,5}, increments in
    {0, 1, 9} mm, every subset of interior water-level samples removed; then seeded random
    datasets of up to 14 steps with up to two gaps."""
    nmax = 4 if tier == "quick" else 5
    for n in range(2, nmax + 1):
        for rains in itertools.product([0.0, 5.0], repeat=n):
            for incs in itertools.product([0.0, 1.0, 9.0], repeat=n - 1):
                heads = [-100.0]
                for d in incs:
                    heads.append(heads[-1] + d)
                for present in itertools.product([True, False], repeat=max(n - 2, 0)):
                    yield {"rains": list(rains), "heads": heads, "present": [True] + list(present) + [True]}
    # water level sampled off the rainfall grid, any subset of half-step positions (>= 2 samples)
    for n in (3, 4):
        pos = list(range(0, 2 * n + 2))
        for k in range(2, len(pos) + 1):
            for sub in itertools.combinations(pos, k):
                if tier == "quick" and (len(sub) > 5 and n == 4):
                    continue
                yield {"rains": [0.0, 5.0, 0.0, 0.0][:n], "heads": [],
                       "wl_halfsteps": [(h, -100.0 + (9.0 if i % 3 == 2 else 0.0) * (i // 3 + 1)) for i, h in enumerate(sub)]}
    rng = random.Random(seed)
    # two-valued patterns on 6..8 steps (storms and rises of different lengths overlapping)
    pats = []
    for n in (6, 7, 8):
        for rains in itertools.product([0.0, 5.0], repeat=n):
            for incs in itertools.product([0.0, 9.0], repeat=n - 1):
                pats.append((rains, incs))
    if tier == "quick":
        pats = rng.sample(pats, 500)
    for rains, incs in pats:
        heads = [-100.0]
        for d in incs:
            heads.append(heads[-1] + d)
        yield {"rains": list(rains), "heads": heads, "present": None}
    for _ in range(150 if tier == "quick" else 3000):
        n = rng.randint(5, 14)
        rains = [rng.choice([0.0, 0.0, 5.0, 5.0, 4.0, 0.5]) for _ in range(n)]
        heads = [-100.0]
        for _ in range(n - 1):
            heads.append(heads[-1] + rng.choice([0.0, -1.0, 1.0, 9.0, 9.0, 4.0, 5.0]))
        present = [True] * n
        for _ in range(rng.randint(0, 2)):
            present[rng.randint(1, n - 2)] = False
        yield {"rains": rains, "heads": heads, "present": present}


def run_for(prop):
    def run(repo, tier, seed):
        ev = 0
        distinct = set()
        failures, samples = [], []
        exhaustive_done = True
        for case in cases(tier, seed):
            res = run_case(repo, case, (prop,) if prop != "C01" else ("C01",))
            if res is None:
                continue
            ev += 1
            sig = (tuple(case["rains"]), tuple(case["heads"]), tuple(case.get("present") or ()),
                   tuple(map(tuple, case.get("wl_halfsteps") or ())))
            hs = case["heads"] or [v for _, v in case.get("wl_halfsteps")]
            nontrivial = any(r > S_THR for r in case["rains"]) and any(
                b - a > J_THR * STEP / 3600.0 for a, b in zip(hs, hs[1:]))
            if nontrivial:
                distinct.add(sig)
            if len(samples) < 2 and nontrivial:
                samples.append(case)
            mine = [r for r in res if r[0] == prop]
            if mine and len(failures) < 3:
                failures.append({"key": prop + ":" + mine[0][1].split(":")[0][:60], "input": case, "observed": mine[0][1]})
                if len(failures) >= 3:
                    break
        return {"bound": "all datasets of <= %d steps x rain {0,5} x increments {0,1,9} x removed interior samples, "
                         "+ %s seeded random datasets <= 14 steps" % (4 if tier == "quick" else 5, 150 if tier == "quick" else 3000),
                "evaluations": ev, "distinct": len(distinct), "exhaustive": False, "failures": failures, "samples": samples}
    return run


run_C01 = run_for("C01")
run_C02 = run_for("C02")
run_C03 = run_for("C03")
run_C04 = run_for("C04")


def replay(repo, rec):
    """True when the contract holds on the recorded input (no violation)."""
    res = run_case(repo, rec["input"], (rec["property"],))
    if res is None:
        return True
    mine = [r for r in res if r[0] == rec["property"]]
    for r in mine:
        print("  ", r)
    return not mine
