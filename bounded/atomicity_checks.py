"""Bounded stand-in / validation for C20 (fault enumeration): every SQL statement issued by every
step as a failure point (exception) and, for a sample, as a kill point (process exit without
rollback), on a planted dataset in a real database file; plus all orders of the independent steps
with failed attempts in between.  Validates the one assumed contract of the C20 lemma (SQLite's
atomic commit + Python's sqlite3 transaction handling) and the frames."""
import itertools
import os
import shutil
import sqlite3
import subprocess
import sys
import tempfile

from pyvc import pipeline
from bounded import curves_checks


class Boom(Exception):
    pass


def make_faulty(fail_at, counter, kill=False):
    class FaultyCursor(sqlite3.Cursor):
        def _tick(self):
            counter[0] += 1
            if counter[0] - 1 == fail_at:
                if kill:
                    os._exit(77)
                raise Boom("injected failure at statement %d" % fail_at)

        def execute(self, *a, **k):
            self._tick()
            return super().execute(*a, **k)

        def executemany(self, *a, **k):
            self._tick()
            return super().executemany(*a, **k)

    class FaultyConnection(sqlite3.Connection):
        def cursor(self, factory=None):
            return super().cursor(FaultyCursor)

        def execute(self, *a, **k):
            return self.cursor().execute(*a, **k)

    return FaultyConnection


def steps(repo):
    m = curves_checks._mods(repo)
    import importlib
    sc = importlib.import_module("spowtd.set_curvature")
    return {
        "classify": lambda con: m["classify"].classify_intervals(con, 4.0, 8.0),
        "set-zeta-grid": lambda con: m["zeta_grid"].populate_zeta_grid(con, 1.0),
        "set-curvature": lambda con: sc.set_curvature(con, 2.36),
        "rise": lambda con: m["rise"].find_rise_offsets(con, None),
        "recession": lambda con: m["recession"].find_recession_offsets(con, None),
    }


def run_step(path, fn, fail_at=None, kill=False):
    """Mirrors user_interface.main: one `with sqlite3.connect(db) as connection:` around the step."""
    counter = [0]
    factory = make_faulty(fail_at if fail_at is not None else -1, counter, kill)
    try:
        with sqlite3.connect(path, factory=factory) as connection:
            fn(connection)
        err = None
    except Boom as e:
        err = e
    finally:
        try:
            connection.close()
        except Exception:
            pass
    return counter[0], err


def dump(path):
    con = sqlite3.connect(path)
    try:
        return "\n".join(con.iterdump())
    finally:
        con.close()


def run_C20(repo, tier, seed):
    ev = 0
    failures, samples = [], []
    S = steps(repo)
    # a planted dataset on which every step has something to do (rise / recession refuse a dataset in which no grid
    # level is shared by two intervals)
    data = None
    for cand in range(seed * 13 + 2, seed * 13 + 42):
        trial = curves_checks.planted(cand)
        try:
            curves_checks.workflow(repo, trial, 1.0)
            data = trial
            break
        except Exception:
            continue
    if data is None:
        return {"bound": "no planted dataset on which all five steps complete", "evaluations": 0, "distinct": 0, "exhaustive": False,
                "failures": [{"key": "no-dataset", "input": {"seed": seed}, "observed": "every candidate dataset made a step fail"}], "samples": []}
    d = tempfile.mkdtemp(prefix="spowtd_verif_c20_")
    try:
        base = os.path.join(d, "base.sqlite3")
        con = sqlite3.connect(base)
        pipeline.load(repo, data["rain"], data["et"], data["wl"], "UTC", connection=con)
        con.close()
        prereq = {"classify": [], "set-zeta-grid": [], "set-curvature": [], "rise": ["classify", "set-zeta-grid"],
                  "recession": ["classify", "set-zeta-grid"]}
        for name, fn in S.items():
            start = os.path.join(d, "start_%s.sqlite3" % name)
            shutil.copy(base, start)
            for p in prereq[name]:
                run_step(start, S[p])
            before = dump(start)
            full = os.path.join(d, "full_%s.sqlite3" % name)
            shutil.copy(start, full)
            n, err = run_step(full, fn)
            if err:
                failures.append({"key": "step-failed-" + name, "input": {"step": name}, "observed": str(err)})
                continue
            after = dump(full)
            if after == before:
                failures.append({"key": "step-wrote-nothing-" + name, "input": {"step": name}, "observed": "no effect"})
            points = list(range(n))
            for k in points:
                ev += 1
                w = os.path.join(d, "w.sqlite3")
                shutil.copy(start, w)
                _, err = run_step(w, fn, fail_at=k)
                got = dump(w)
                case = {"step": name, "failure_at_statement": k, "statements_in_step": n}
                if err is None:
                    failures.append({"key": "fault-not-raised-" + name, "input": case, "observed": "injected failure did not surface"})
                elif got != before:
                    failures.append({"key": "partial-state-after-failure-" + name, "input": case,
                                     "observed": "database differs from its previous content after a failure at statement %d of %d" % (k, n)})
                else:
                    # the step can be run again and then gives the complete result
                    _, err2 = run_step(w, fn)
                    if err2 is not None or dump(w) != after:
                        failures.append({"key": "rerun-differs-" + name, "input": case, "observed": "re-running the step after the failure does not give the complete result"})
                if len(samples) < 3:
                    samples.append(case)
            # kill points: a child process exits inside the step without rollback
            kills = points if tier != "quick" else points[:: max(1, len(points) // 4)][:5]
            for k in kills:
                ev += 1
                w = os.path.join(d, "k.sqlite3")
                for f in (w, w + "-journal", w + "-wal"):
                    if os.path.exists(f):
                        os.unlink(f)
                shutil.copy(start, w)
                code = ("import sys; sys.path.insert(0, %r); sys.path.insert(0, %r)\n"
                        "from bounded import atomicity_checks as a\n"
                        "S = a.steps(%r)\n"
                        "a.run_step(%r, S[%r], fail_at=%d, kill=True)\n" % (
                            os.path.dirname(os.path.dirname(os.path.abspath(__file__))), repo, repo, w, name, k))
                p = subprocess.run([sys.executable, "-c", code], capture_output=True, text=True, timeout=300)
                case = {"step": name, "killed_at_statement": k}
                if p.returncode != 77:
                    failures.append({"key": "kill-harness-" + name, "input": case, "observed": "child exit %r: %s" % (p.returncode, p.stderr[-300:])})
                    continue
                got = dump(w)
                if got != before and got != after:
                    failures.append({"key": "mixture-after-kill-" + name, "input": case,
                                     "observed": "after a kill the database is neither its previous content nor the complete result"})
            # a completed step refuses to run twice (singleton) or leaves the content unchanged
            _, err3 = None, None
            try:
                n3, err3 = run_step(full, fn)
                second = dump(full)
                if name in ("classify", "set-zeta-grid", "set-curvature") and second != after:
                    failures.append({"key": "second-run-changed-" + name, "input": {"step": name}, "observed": "a second run of the completed step changed the dataset"})
            except sqlite3.IntegrityError:
                if dump(full) != after:
                    failures.append({"key": "second-run-partial-" + name, "input": {"step": name}, "observed": "refused second run left changes behind"})
            except Exception as e:
                if dump(full) != after:
                    failures.append({"key": "second-run-partial-" + name, "input": {"step": name}, "observed": "%s and content changed" % type(e).__name__})
        # commutation of independent steps, with a failed attempt in between
        finals = {}
        for order in itertools.permutations(["classify", "set-zeta-grid", "set-curvature"]):
            ev += 1
            w = os.path.join(d, "o.sqlite3")
            shutil.copy(base, w)
            for i, name in enumerate(order):
                if i == 1:
                    run_step(w, S[order[2]], fail_at=0)       # a failed attempt of another step in between
                run_step(w, S[name])
            finals[order] = dump(w)
        if len(set(finals.values())) != 1:
            failures.append({"key": "order-dependence-classify-grid-curvature", "input": {"orders": [list(o) for o in finals]},
                             "observed": "final dataset depends on the order of independent steps"})
        finals = {}
        for order in itertools.permutations(["rise", "recession"]):
            ev += 1
            w = os.path.join(d, "o2.sqlite3")
            shutil.copy(base, w)
            for p in ("classify", "set-zeta-grid"):
                run_step(w, S[p])
            run_step(w, S[order[1]], fail_at=3)
            for name in order:
                run_step(w, S[name])
            finals[order] = dump(w)
        if len(set(finals.values())) != 1:
            failures.append({"key": "order-dependence-rise-recession", "input": {}, "observed": "final dataset depends on the order of rise and recession"})
    finally:
        shutil.rmtree(d, ignore_errors=True)
    seen, out = set(), []
    for f in failures:
        if f["key"] not in seen:
            seen.add(f["key"])
            out.append(f)
    return {"bound": "1 planted dataset x 5 steps x every statement of the step as failure point (exception), a sample (thorough: all) as kill point; "
                     "all 6 orders of classify / set-zeta-grid / set-curvature and both orders of rise / recession with failed attempts in between",
            "evaluations": ev, "distinct": ev, "exhaustive": True, "failures": out[:4], "samples": samples}


def replay(repo, rec):
    r = run_C20(repo, "quick", 0)
    for f in r["failures"]:
        print("  ", f["observed"])
    return not r["failures"]
